#!/usr/bin/env python3
"""Regenerates MANIFEST.json from checks.py and not_applicable.json (keeps the two in sync)."""
import json, os, sys
VERIF = os.path.dirname(os.path.abspath(__file__))
sys.path.insert(0, VERIF)
from checks import CHECKS

props = [json.loads(l)["id"] for l in open(os.path.join(VERIF, "properties.jsonl"))]
na_path = os.path.join(VERIF, "not_applicable.json")
na_reasons = json.load(open(na_path)) if os.path.exists(na_path) else {}

checks = []
for pid in sorted(CHECKS):
    c = CHECKS[pid]
    checks.append({
        "property_id": pid,
        "quick_cmd": f"./run {pid} quick",
        "thorough_cmd": f"./run {pid} thorough",
        "evidence_file": f"/verif/evidence/{pid}.json",
        "replay_cmd_template": f"./run {pid} --replay {{path}}",
        "engine": "verif-driver",
        "level_claimed": {"category": c["level"], "text": c["level_text"], "design_ref": c["design_ref"]},
        "level_note": c["level_note"],
        "technique": c["technique"],
    })
na = []
for pid in props:
    if pid not in CHECKS:
        na.append({"property_id": pid, "reason": na_reasons.get(pid, "check not built yet in this session (harness pending); not a claim that the technique cannot apply")})

m = {
    "version": 1,
    "setup_cmd": "./run setup",
    "hooks": {
        "guard": "CLUSTERLABS_LIBQB_VERIF",
        "enable": "no source hooks exist: checks compile /repo/lib/*.c directly (clang, sanitizers) and observe/control libqb through link-time --wrap interposition and compiler instrumentation; -DCLUSTERLABS_LIBQB_VERIF is passed but nothing in /repo tests it",
        "baseline_off_cmd": "make -C /repo check",
        "source_commits": [],
        "add_only": True,
    },
    "engines": [{
        "name": "verif-driver",
        "path": "/verif/engine",
        "serves_properties": sorted(CHECKS),
        "kind_free_text": "byte-string case engine: seeded random driver with crash-tolerant worker processes (private /dev/shm namespace each), enumerator hook, fork-per-candidate delta-debugging shrinker, replay; the same verif_case() is also the libFuzzer target",
    }],
    "checks": checks,
    "not_applicable": na,
    "notes": "See DESIGN.md. known_findings.json lists repaired (fixed:) and open findings; replays/regress holds shrunk regression inputs.",
}
json.dump(m, open(os.path.join(VERIF, "MANIFEST.json"), "w"), indent=1)
print(f"MANIFEST.json: {len(checks)} checks, {len(na)} not_applicable")
