/*
 * fuzz_main.c - libFuzzer front end: the same verif_case() as the seeded driver, driven by coverage feedback.
 * A failing case traps (libFuzzer saves the input as crash-*); the front end (run) re-checks every saved
 * input with the ordinary replay path before it counts as a violation.
 */
#ifndef _GNU_SOURCE
#define _GNU_SOURCE
#endif
#include <sched.h>
#include <stdio.h>
#include <stdlib.h>
#include <string.h>
#include <unistd.h>
#include <sys/mount.h>
#include <sys/stat.h>
#include "verif.h"

static char g_scratch[256];
static char g_exclude[512];
static int g_ns_ok;

int verif_tier_thorough(void) { return 1; }
const char *verif_scratch_dir(void) { return g_scratch; }
int verif_private_shm(void) { return g_ns_ok; }
int verif_excluded(const char *sig)
{
	size_t n = strlen(sig);
	for (const char *p = g_exclude; *p; ) {
		const char *e = strchr(p, ','); size_t l = e ? (size_t)(e - p) : strlen(p);
		if (l == n && !strncmp(p, sig, n)) return 1;
		if (!e) break;
		p = e + 1;
	}
	return 0;
}

int LLVMFuzzerInitialize(int *argc, char ***argv)
{
	(void)argc; (void)argv;
	const char *base = getenv("VERIF_SCRATCH"); if (!base) base = "/verif/.build/tmp";
	mkdir(base, 0700);
	snprintf(g_scratch, sizeof g_scratch, "%s/fz-%s-%d", base, verif_property, (int)getpid());
	mkdir(g_scratch, 0700);
	const char *ex = getenv("VERIF_EXCLUDE"); if (ex) snprintf(g_exclude, sizeof g_exclude, "%s", ex);
	if (unshare(CLONE_NEWNS) == 0 && mount("none", "/", NULL, MS_REC | MS_PRIVATE, NULL) == 0 &&
	    mount("tmpfs", "/dev/shm", "tmpfs", 0, "size=1g,mode=1777") == 0) g_ns_ok = 1;
	verif_init();
	return 0;
}

int LLVMFuzzerTestOneInput(const uint8_t *data, size_t size)
{
	if (size < verif_min_size || size > verif_max_size) return 0;
	struct verif_report r; memset(&r, 0, sizeof r);
	verif_case(data, size, &r);
	if (r.fail) {
		fprintf(stderr, "VERIF-FAIL [%s] %s\n", r.sig, r.msg);
		__builtin_trap();
	}
	return 0;
}
