/*
 * wrap_mmap.c - link with -Wl,--wrap=mmap,--wrap=munmap
 * Ring data lives in mmap()ed files, which ASan does not police.  Every PROT_NONE
 * anonymous reservation libqb makes (that is how qb_sys_circular_mmap starts) is
 * enlarged by a guard region on both sides and libqb is handed the middle, so an
 * index outside the double mapping faults at once instead of silently reading or
 * scribbling over a neighbouring mapping.
 */
#include <sys/mman.h>
#include <stddef.h>
#include <stdint.h>

#define GUARD ((size_t)16 << 20)
#define MAXRES 64

void *__real_mmap(void *addr, size_t len, int prot, int flags, int fd, off_t off);
int __real_munmap(void *addr, size_t len);

static struct { char *user; size_t len; } res[MAXRES];

void *__wrap_mmap(void *addr, size_t len, int prot, int flags, int fd, off_t off)
{
	if (addr == NULL && prot == PROT_NONE && (flags & MAP_ANONYMOUS) && fd == -1) {
		char *p = __real_mmap(NULL, len + 2 * GUARD, PROT_NONE, flags, -1, 0);
		if (p == MAP_FAILED) return p;
		for (int i = 0; i < MAXRES; i++) if (!res[i].user) { res[i].user = p + GUARD; res[i].len = len; break; }
		return p + GUARD;
	}
	return __real_mmap(addr, len, prot, flags, fd, off);
}

int __wrap_munmap(void *addr, size_t len)
{
	for (int i = 0; i < MAXRES; i++)
		if (res[i].user == (char *)addr && res[i].len == len) {
			res[i].user = NULL;
			return __real_munmap((char *)addr - GUARD, len + 2 * GUARD);
		}
	return __real_munmap(addr, len);
}
