#ifndef VERIF_VCLOCK_H
#define VERIF_VCLOCK_H
#include <stdint.h>
#ifdef __cplusplus
extern "C" {
#endif
void vclock_enable(int on);
void vclock_set_real(uint64_t ns);
void vclock_set_mono(uint64_t ns);
uint64_t vclock_mono(void);
void vclock_advance(uint64_t ns);
void vclock_set_tick(uint64_t ns);
unsigned long vclock_reads(void);
#ifdef __cplusplus
}
#endif
#endif
