/*
 * wrap_crash.c - crash-point injection at the boundary of libc calls (link with the WRAP_CRASH list).
 *
 * Every wrapped call made by libqb (or the harness) in a process that armed the counter increments
 * it; when it reaches the chosen value the process stops there with _exit(), as if it had been
 * killed just before that call.  For send/sendmsg/write the victim can also be made to stop after
 * a prefix of the bytes went out.  Unarmed processes only pay for a test of one int.
 */
#ifndef _GNU_SOURCE
#define _GNU_SOURCE
#endif
#include <sys/types.h>
#include <sys/socket.h>
#include <sys/mman.h>
#include <sys/stat.h>
#include <poll.h>
#include <unistd.h>
#include <fcntl.h>
#include <stdarg.h>
#include <stdlib.h>
#include <string.h>
#include <stdio.h>
#include <errno.h>
#include "vcrash.h"

static int armed;
static long at = -1, count;
static int partial_sel = -1;	/* >= 0: a crashing send stops after (sel % len) bytes */
static int report_fd = -1;
static char last_name[32];
static void (*hook)(const char *);
static int in_hook;
void vcrash_set_hook(void (*fn)(const char *)) { hook = fn; }

void vcrash_arm(long crash_at, int partial, int fd) { armed = 1; at = crash_at; count = 0; partial_sel = partial; report_fd = fd; }
void vcrash_disarm(void) { armed = 0; }
long vcrash_count(void) { return count; }

ssize_t __real_write(int, const void *, size_t);
static void die(const char *name)
{
	if (report_fd >= 0) {
		char b[64]; int n = snprintf(b, sizeof b, "K %ld %s\n", count - 1, name);
		if (__real_write(report_fd, b, n) < 0) {}
	}
	_exit(99);
}
#define HIT(name) do { if (hook && !in_hook) { in_hook = 1; hook(name); in_hook = 0; } if (armed) { strncpy(last_name, name, sizeof last_name - 1); if (count++ == at) die(name); } } while (0)

int __real_socket(int, int, int);
int __wrap_socket(int a, int b, int c) { HIT("socket"); return __real_socket(a, b, c); }
int __real_connect(int, const struct sockaddr *, socklen_t);
int __wrap_connect(int a, const struct sockaddr *b, socklen_t c) { HIT("connect"); return __real_connect(a, b, c); }
int __real_bind(int, const struct sockaddr *, socklen_t);
int __wrap_bind(int a, const struct sockaddr *b, socklen_t c) { HIT("bind"); return __real_bind(a, b, c); }
int __real_listen(int, int);
int __wrap_listen(int a, int b) { HIT("listen"); return __real_listen(a, b); }
int __real_accept(int, struct sockaddr *, socklen_t *);
int __wrap_accept(int a, struct sockaddr *b, socklen_t *c) { HIT("accept"); return __real_accept(a, b, c); }
int __real_shutdown(int, int);
int __wrap_shutdown(int a, int b) { HIT("shutdown"); return __real_shutdown(a, b); }
int __real_setsockopt(int, int, int, const void *, socklen_t);
int __wrap_setsockopt(int a, int b, int c, const void *d, socklen_t e) { HIT("setsockopt"); return __real_setsockopt(a, b, c, d, e); }

ssize_t __real_send(int, const void *, size_t, int);
ssize_t __wrap_send(int fd, const void *buf, size_t len, int flags)
{
	if (armed && at == -2 && len > 1) at = count;	/* "at the first send" */
	if (armed && count == at && partial_sel >= 0 && len > 1) {
		size_t n = (size_t)partial_sel % len;
		if (n) { if (__real_send(fd, buf, n, flags) < 0) {} }
		count++; die("send(partial)");
	}
	HIT("send");
	return __real_send(fd, buf, len, flags);
}
ssize_t __real_sendmsg(int, const struct msghdr *, int);
ssize_t __wrap_sendmsg(int fd, const struct msghdr *m, int flags)
{
	if (armed && at == -2 && m->msg_iovlen >= 1 && m->msg_iov[0].iov_len > 1) at = count;
	if (armed && count == at && partial_sel >= 0 && m->msg_iovlen >= 1 && m->msg_iov[0].iov_len > 1) {
		struct msghdr mm = *m; struct iovec iv = m->msg_iov[0];
		iv.iov_len = (size_t)partial_sel % iv.iov_len; mm.msg_iov = &iv; mm.msg_iovlen = 1;
		if (iv.iov_len) { if (__real_sendmsg(fd, &mm, flags) < 0) {} }
		count++; die("sendmsg(partial)");
	}
	HIT("sendmsg");
	return __real_sendmsg(fd, m, flags);
}
ssize_t __real_recv(int, void *, size_t, int);
ssize_t __wrap_recv(int a, void *b, size_t c, int d) { HIT("recv"); return __real_recv(a, b, c, d); }
ssize_t __real_recvmsg(int, struct msghdr *, int);
ssize_t __wrap_recvmsg(int a, struct msghdr *b, int c) { HIT("recvmsg"); return __real_recvmsg(a, b, c); }
int __real_poll(struct pollfd *, nfds_t, int);
int __wrap_poll(struct pollfd *a, nfds_t b, int c) { HIT("poll"); return __real_poll(a, b, c); }

int __real_open(const char *, int, ...);
int __wrap_open(const char *p, int flags, ...)
{
	mode_t mode = 0;
	if (flags & (O_CREAT | O_TMPFILE)) { va_list ap; va_start(ap, flags); mode = va_arg(ap, mode_t); va_end(ap); }
	HIT("open");
	return __real_open(p, flags, mode);
}
int __real_close(int);
int __wrap_close(int a) { HIT("close"); return __real_close(a); }
int __real_unlink(const char *);
int __wrap_unlink(const char *a) { HIT("unlink"); return __real_unlink(a); }
int __real_unlinkat(int, const char *, int);
int __wrap_unlinkat(int a, const char *b, int c) { HIT("unlinkat"); return __real_unlinkat(a, b, c); }
int __real_rmdir(const char *);
int __wrap_rmdir(const char *a) { HIT("rmdir"); return __real_rmdir(a); }
int __real_ftruncate(int, off_t);
int __wrap_ftruncate(int a, off_t b) { HIT("ftruncate"); return __real_ftruncate(a, b); }
int __real_truncate(const char *, off_t);
int __wrap_truncate(const char *a, off_t b) { HIT("truncate"); return __real_truncate(a, b); }
void *__real_mmap(void *, size_t, int, int, int, off_t);
void *__wrap_mmap(void *a, size_t b, int c, int d, int e, off_t f) { HIT("mmap"); return __real_mmap(a, b, c, d, e, f); }
int __real_munmap(void *, size_t);
int __wrap_munmap(void *a, size_t b) { HIT("munmap"); return __real_munmap(a, b); }
ssize_t __real_write(int, const void *, size_t);
ssize_t __wrap_write(int a, const void *b, size_t c) { HIT("write"); return __real_write(a, b, c); }
char *__real_mkdtemp(char *);
char *__wrap_mkdtemp(char *a) { HIT("mkdtemp"); return __real_mkdtemp(a); }
int __real_chmod(const char *, mode_t);
int __wrap_chmod(const char *a, mode_t b) { HIT("chmod"); return __real_chmod(a, b); }
int __real_chown(const char *, uid_t, gid_t);
int __wrap_chown(const char *a, uid_t b, gid_t c) { HIT("chown"); return __real_chown(a, b, c); }
int __real_fchmod(int, mode_t);
int __wrap_fchmod(int a, mode_t b) { HIT("fchmod"); return __real_fchmod(a, b); }
int __real_fchown(int, uid_t, gid_t);
int __wrap_fchown(int a, uid_t b, gid_t c) { HIT("fchown"); return __real_fchown(a, b, c); }
