/*
 * wrap_epoll.c - link with -Wl,--wrap=epoll_wait (together with wrap_clock.c)
 * The loop's only blocking call becomes a function of the case: real readiness is harvested with a
 * zero timeout, and when nothing is ready the VIRTUAL monotonic clock is advanced instead of sleeping.
 * The harness installs a hook that sees every call (iteration boundary, requested timeout).
 */
#include <sys/epoll.h>
#include <stdint.h>
#include "vclock.h"
#include "vepoll.h"

int __real_epoll_wait(int epfd, struct epoll_event *ev, int max, int timeout);

static vepoll_hook_fn hook;
static int active;

void vepoll_enable(int on, vepoll_hook_fn fn) { active = on; hook = fn; }

int __wrap_epoll_wait(int epfd, struct epoll_event *ev, int max, int timeout)
{
	if (!active) return __real_epoll_wait(epfd, ev, max, timeout);
	int n = __real_epoll_wait(epfd, ev, max, 0);
	if (n < 0) return n;
	/* the hook decides how far virtual time moves when the loop would have slept; it may also stop the loop */
	if (hook) hook(n, timeout);
	return n;
}
