#ifndef VCRASH_H
#define VCRASH_H
#ifdef __cplusplus
extern "C" {
#endif
/* arm the crash counter of this process: stop with _exit(99) just before wrapped libc call number crash_at (0-based; -1 = only count; -2 = at the first send/sendmsg of more than one byte, i.e. the handshake message);
   partial >= 0: if that call is a send/sendmsg, first let (partial % len) bytes out; fd >= 0: where to report "K <n> <call>" */
void vcrash_arm(long crash_at, int partial, int fd);
void vcrash_disarm(void);
long vcrash_count(void);
/* observer called before every wrapped libc call of this process (not re-entered) */
void vcrash_set_hook(void (*fn)(const char *call));
#ifdef __cplusplus
}
#endif
#endif
