/*
 * verif.h - common API between the case drivers and the property harnesses.
 *
 * A harness implements verif_case(): it decodes a byte string through the
 * choice reader below into a concrete case (inputs, an operation history, a
 * schedule ...), runs it against libqb built from /repo's working tree, checks
 * its oracle and fills in the report.  The same function is driven by the
 * seeded random driver, by libFuzzer, by the enumerators and by --replay.
 */
#ifndef VERIF_H
#define VERIF_H

#include <stdint.h>
#include <stddef.h>
#include <stdio.h>
#include <string.h>
#include <stdarg.h>

#ifdef __cplusplus
extern "C" {
#endif

#define VERIF_MAX_CLASSES 32

struct verif_report {
	int fail;		/* oracle violated */
	char sig[96];		/* stable signature of the violated oracle clause */
	char msg[1024];		/* human readable detail */
	int nontrivial;		/* case satisfies the property's non-trivial rule */
	int inconclusive;	/* case could not be judged (resource problem ...) */
	uint64_t ophash;	/* hash of the DECODED case (not of the raw bytes) */
	uint32_t classes;	/* bit i set = case belongs to class i */
	uint32_t excluded;	/* ops withheld because of an open known finding */
	uint32_t nops;		/* decoded operations executed */
	int want_log;		/* print the decoded case while running (replay/samples) */
	FILE *logf;		/* where to print it */
};

/* provided by every harness */
extern const char *verif_property;		/* "C07" */
extern const char *verif_class_names[];		/* NULL terminated, <= 32 */
extern const char *verif_rule;			/* non-trivial rule + generator, prose */
extern int verif_fork_per_case;			/* run every case in its own child */
extern int verif_case_timeout_ms;		/* watchdog per case (fork mode) */
extern int verif_nondeterministic;		/* optional (weak, default 0) */
extern int verif_hang_is_violation;		/* property is about not hanging */
extern size_t verif_max_size;			/* largest case in bytes */
extern size_t verif_min_size;			/* smallest useful case in bytes */
void verif_init(void);				/* once per worker process */
int verif_case(const uint8_t *data, size_t size, struct verif_report *r);
/* optional enumerated sub-space: return number of cases, write case i */
size_t verif_enum_count(const char *tier);
size_t verif_enum_case(size_t i, uint8_t *buf, size_t cap);

/* provided by the driver */
int verif_excluded(const char *finding_sig);	/* open known finding -> generator guard on */
int verif_tier_thorough(void);
const char *verif_scratch_dir(void);
int verif_private_shm(void);			/* 1 = /dev/shm is a private empty tmpfs */		/* private per-worker directory */

/* ---- choice reader ------------------------------------------------- */
struct vr {
	const uint8_t *p;
	size_t n, pos;
};

static inline void vr_init(struct vr *v, const uint8_t *p, size_t n)
{
	v->p = p; v->n = n; v->pos = 0;
}
static inline int vr_eof(const struct vr *v) { return v->pos >= v->n; }
static inline uint32_t vr_u8(struct vr *v)
{
	return v->pos < v->n ? v->p[v->pos++] : 0;
}
static inline uint32_t vr_u16(struct vr *v)
{
	uint32_t a = vr_u8(v); return a | (vr_u8(v) << 8);
}
static inline uint32_t vr_u32(struct vr *v)
{
	uint32_t a = vr_u16(v); return a | (vr_u16(v) << 16);
}
static inline uint64_t vr_u64(struct vr *v)
{
	uint64_t a = vr_u32(v); return a | ((uint64_t)vr_u32(v) << 32);
}
/* inclusive range; exhausted input yields lo (the "simplest" choice) */
static inline int64_t vr_range(struct vr *v, int64_t lo, int64_t hi)
{
	uint64_t span, x;
	if (hi <= lo) return lo;
	span = (uint64_t)(hi - lo) + 1;
	if (span <= 0x100) x = vr_u8(v);
	else if (span <= 0x10000) x = vr_u16(v);
	else if (span <= 0x100000000ULL) x = vr_u32(v);
	else x = vr_u64(v);
	return lo + (int64_t)(x % span);
}
static inline int vr_bool(struct vr *v) { return vr_u8(v) & 1; }
/* true with probability num/256 */
static inline int vr_chance(struct vr *v, unsigned num) { return vr_u8(v) < num; }

/* ---- report helpers ------------------------------------------------ */
static inline uint64_t vmix(uint64_t h, uint64_t x)
{
	h ^= x + 0x9e3779b97f4a7c15ULL + (h << 6) + (h >> 2);
	h *= 0xff51afd7ed558ccdULL; h ^= h >> 33;
	return h;
}
static inline void vop(struct verif_report *r, uint64_t a, uint64_t b, uint64_t c)
{
	r->ophash = vmix(vmix(vmix(r->ophash, a), b), c);
	r->nops++;
}
static inline uint64_t vhash_bytes(const void *p, size_t n)
{
	const uint8_t *b = (const uint8_t *)p; uint64_t h = 1469598103934665603ULL;
	for (size_t i = 0; i < n; i++) { h ^= b[i]; h *= 1099511628211ULL; }
	return h;
}
#define VCLASS(r, i) ((r)->classes |= 1u << (i))

#define VLOG(r, ...) do { if ((r)->want_log) { \
	fprintf((r)->logf ? (r)->logf : stdout, __VA_ARGS__); \
	fflush((r)->logf ? (r)->logf : stdout); } } while (0)

#define VFAIL(r, signature, ...) do { if (!(r)->fail) { (r)->fail = 1; \
	snprintf((r)->sig, sizeof((r)->sig), "%s", signature); \
	snprintf((r)->msg, sizeof((r)->msg), __VA_ARGS__); \
	VLOG(r, "!! FAIL [%s] %s\n", (r)->sig, (r)->msg); } } while (0)

#ifdef __cplusplus
}
#endif
#endif
