/*
 * wrap_perturb.c - link with -Wl,--wrap=pthread_spin_lock,--wrap=sem_post,--wrap=sem_wait
 * Timing perturbation for harnesses that run libqb's own threads (C16): a pseudo-random, case-seeded
 * short sleep in front of some synchronisation calls widens the windows between "woken up" and
 * "took the lock", or between "set the flag" and "posted the semaphore".  It only delays, it never
 * changes what a call does.
 */
#include <pthread.h>
#include <semaphore.h>
#include <unistd.h>
#include <stdint.h>
#include "verif.h"

int __real_pthread_spin_lock(pthread_spinlock_t *l);
int __real_sem_post(sem_t *s);
int __real_sem_wait(sem_t *s);

static volatile uint32_t seed;
static volatile uint32_t counter;
static volatile unsigned rate = 8, max_us = 300;

void verif_perturb_set(uint32_t s, unsigned one_in, unsigned maxus) { seed = s; counter = 0; rate = one_in ? one_in : 8; max_us = maxus ? maxus : 300; }

static void perturb(unsigned site)
{
	if (!seed) return;
	uint32_t c = __sync_fetch_and_add(&counter, 1);
	uint64_t h = vmix(vmix(seed, c), site);
	if (h % rate == 0) usleep((h >> 8) % max_us);
}

int __wrap_pthread_spin_lock(pthread_spinlock_t *l) { perturb(1); return __real_pthread_spin_lock(l); }
int __wrap_sem_post(sem_t *s) { perturb(2); return __real_sem_post(s); }
int __wrap_sem_wait(sem_t *s) { int rc = __real_sem_wait(s); perturb(3); return rc; }
