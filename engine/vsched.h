#ifndef VERIF_SCHED_H
#define VERIF_SCHED_H
#include <stdint.h>
#include <stddef.h>
#include "verif.h"
#ifdef __cplusplus
extern "C" {
#endif
void sched_region_add(const void *p, size_t len);
void sched_region_clear(void);
void sched_set_threshold(unsigned t);	/* schedule bytes >= t preempt (default 192 = 25%) */
int sched_run(int n, void (*fn[])(void *), void *arg[], struct vr *choices, const uint8_t *forced, size_t nforced, unsigned long budget);
void sched_yield_point(void);
int sched_block_and_switch(void);
int sched_self(void);
unsigned long sched_yields(void);
unsigned long sched_switches(void);
unsigned sched_switches_in_call(int party);
uint64_t sched_trace(void);
int sched_deadlocked(void);
int sched_overrun(void);
void sched_enter_call(void);	/* bracket a libqb call: switches inside are counted per party */
void sched_leave_call(void);
#ifdef __cplusplus
}
#endif
#endif
