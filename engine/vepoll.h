#ifndef VERIF_VEPOLL_H
#define VERIF_VEPOLL_H
#ifdef __cplusplus
extern "C" {
#endif
/* called on every epoll_wait of the loop: n = descriptors ready right now, timeout = what the loop asked for (ms, -1 = forever) */
typedef void (*vepoll_hook_fn)(int n_ready, int timeout_ms);
void vepoll_enable(int on, vepoll_hook_fn fn);
#ifdef __cplusplus
}
#endif
#endif
