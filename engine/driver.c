/*
 * driver.c - seeded random driver (R), enumerator front end (E), replay (S)
 * and crash-tolerant shrinker for the libqb property harnesses.
 *
 *   <bin> run    --seed S --cases N [--workers W] [--tier quick|thorough]
 *                --summary out.json --replay-dir DIR [--shrink-s T]
 *   <bin> replay FILE            exit 0 pass / 1 fail / 3 inconclusive
 *   <bin> shrink FILE OUT
 *   <bin> gen    --seed S --index I OUT    write the bytes of random case I
 *
 * Case i of a run is a pure function of (seed, i): bytes from a splitmix64
 * stream, length from a fixed size schedule.  Workers are processes; every
 * worker lives in a private mount namespace with an empty tmpfs on /dev/shm.
 */
#ifndef _GNU_SOURCE
#define _GNU_SOURCE
#endif
#include <sched.h>
#include <stdlib.h>
#include <unistd.h>
#include <errno.h>
#include <fcntl.h>
#include <signal.h>
#include <time.h>
#include <poll.h>
#include <dirent.h>
#include <sys/mman.h>
#include <sys/mount.h>
#include <sys/wait.h>
#include <sys/stat.h>
#include <sys/resource.h>
#include <sys/prctl.h>
#include "verif.h"

#define MAX_WORKERS 64
#define MAX_FAILS 24
#define MAX_SAMPLES 4
#define HASH_CAP (1u << 21)	/* distinct-hash slots per worker */

__attribute__((weak)) size_t verif_enum_count(const char *tier) { (void)tier; return 0; }
__attribute__((weak)) size_t verif_enum_case(size_t i, uint8_t *b, size_t c) { (void)i; (void)b; (void)c; return 0; }
__attribute__((weak)) void verif_init(void) {}
__attribute__((weak)) int verif_nondeterministic = 0;	/* real threads / real time: a failing case may not reproduce on every re-run */

struct failrec {
	uint64_t index;		/* case index (enum cases: index | ENUM_BIT) */
	char sig[96];
	char msg[1024];
	int hang;
};
#define ENUM_BIT (1ULL << 62)

struct wstat {
	int ns_ok;
	volatile uint64_t current;	/* case being run, ~0 = none */
	uint64_t evaluations, nontrivial, inconclusive, excluded, nops;
	uint64_t classcnt[VERIF_MAX_CLASSES];
	uint64_t nfails;
	struct failrec fails[MAX_FAILS];
	uint64_t nsample;
	uint64_t sample[MAX_SAMPLES];
	uint64_t nhash;
	uint64_t hashes[HASH_CAP];
};

struct childres {		/* result slot for fork-per-case */
	volatile int done;
	struct verif_report r;
};

static struct wstat *W;		/* shared: one per worker */
static volatile uint64_t *g_total_fails;	/* shared: failures recorded so far by all workers */
#define STOP_AFTER_FAILS 40		/* a broken tree fails everywhere: no point in grinding through the whole budget */
static struct childres *CR;	/* shared: one per worker */
static int g_workers = 16, g_thorough, g_ns_ok;
static uint64_t g_seed = 1;
static char g_scratch[512];
static char g_exclude[2048];

int verif_tier_thorough(void) { return g_thorough; }
const char *verif_scratch_dir(void) { return g_scratch; }
int verif_private_shm(void) { return g_ns_ok; }
int verif_excluded(const char *sig)
{
	const char *p = g_exclude; size_t n = strlen(sig);
	while ((p = strstr(p, sig))) {
		if ((p == g_exclude || p[-1] == ',') && (p[n] == 0 || p[n] == ','))
			return 1;
		p += n;
	}
	return 0;
}

/* ---------------------------------------------------------------- PRNG */
static uint64_t sm64(uint64_t *s)
{
	uint64_t z = (*s += 0x9e3779b97f4a7c15ULL);
	z = (z ^ (z >> 30)) * 0xbf58476d1ce4e5b9ULL;
	z = (z ^ (z >> 27)) * 0x94d049bb133111ebULL;
	return z ^ (z >> 31);
}

/* size schedule: many small cases, a tail of large ones */
static size_t case_size(uint64_t *s)
{
	size_t lo = verif_min_size ? verif_min_size : 1, hi = verif_max_size;
	uint64_t k = sm64(s) % 100;
	double f;
	if (hi <= lo) return lo;
	if (k < 35) f = 0.08; else if (k < 65) f = 0.2; else if (k < 85) f = 0.45;
	else if (k < 95) f = 0.75; else f = 1.0;
	size_t top = lo + (size_t)((hi - lo) * f);
	if (top <= lo) top = lo + 1;
	return lo + sm64(s) % (top - lo + 1);
}

static size_t gen_case(uint64_t seed, uint64_t index, uint8_t *buf, size_t cap)
{
	uint64_t s = seed * 0x2545F4914F6CDD1DULL + index * 0x9e3779b97f4a7c15ULL + 0x1234567;
	(void)sm64(&s);
	size_t n = case_size(&s), i;
	if (n > cap) n = cap;
	/* three byte distributions: uniform, small-biased, sparse */
	unsigned mode = sm64(&s) % 4;
	for (i = 0; i < n; i += 8) {
		uint64_t x = sm64(&s);
		for (unsigned j = 0; j < 8 && i + j < n; j++) {
			uint8_t b = x >> (8 * j);
			if (mode == 1 && (b & 0x80)) b &= 0x0f;
			else if (mode == 2 && (b & 0xc0)) b = (b & 0x20) ? 0xff : (b & 3);
			buf[i + j] = b;
		}
	}
	return n;
}

static size_t get_case(uint64_t index, uint8_t *buf, size_t cap)
{
	if (index & ENUM_BIT) return verif_enum_case(index & ~ENUM_BIT, buf, cap);
	return gen_case(g_seed, index, buf, cap);
}

/* ------------------------------------------------------------ isolation */
static void enter_namespace(void)
{
	g_ns_ok = 0;
	if (getenv("VERIF_NO_NS")) return;
	if (unshare(CLONE_NEWNS) != 0) return;
	if (mount("none", "/", NULL, MS_REC | MS_PRIVATE, NULL) != 0) return;
	if (mount("tmpfs", "/dev/shm", "tmpfs", 0, "size=1g,mode=1777") != 0) return;
	g_ns_ok = 1;
}

static void clean_dev_shm(void)
{
	DIR *d = opendir("/dev/shm");
	struct dirent *e;
	if (!d) return;
	while ((e = readdir(d))) {
		char p[600];
		if (!strcmp(e->d_name, ".") || !strcmp(e->d_name, "..")) continue;
		snprintf(p, sizeof p, "/dev/shm/%s", e->d_name);
		if (unlink(p) != 0) { char cmd[700]; snprintf(cmd, sizeof cmd, "rm -rf '%s'", p); if (system(cmd)) {} }
	}
	closedir(d);
}

static void rm_rf(const char *path)
{
	char cmd[700];
	snprintf(cmd, sizeof cmd, "rm -rf '%s'", path);
	if (system(cmd)) {}
}

static double now_s(void)
{
	struct timespec ts; clock_gettime(CLOCK_MONOTONIC, &ts);
	return ts.tv_sec + ts.tv_nsec / 1e9;
}

/* extract a stable signature from a sanitizer report */
static void sig_from_stderr(const char *path, int status, char *sig, size_t sn, char *msg, size_t mn)
{
	char *buf = NULL; size_t len = 0;
	FILE *f = fopen(path, "r");
	if (f) {
		buf = malloc(1 << 16);
		len = fread(buf, 1, (1 << 16) - 1, f);
		buf[len] = 0; fclose(f);
	}
	sig[0] = 0; msg[0] = 0;
	if (buf) {
		char *s = strstr(buf, "SUMMARY: AddressSanitizer: ");
		char *u = strstr(buf, "runtime error: ");
		if (s) {
			char kind[64] = "", func[128] = "";
			s += strlen("SUMMARY: AddressSanitizer: ");
			sscanf(s, "%63s", kind);
			char *in = strstr(s, " in ");
			char *nl = strchr(s, '\n');
			if (in && (!nl || in < nl)) sscanf(in + 4, "%127[A-Za-z0-9_]", func);
			snprintf(sig, sn, "asan:%s:%s", kind, func);
		} else if (u) {
			char t[48]; size_t j = 0;
			u += strlen("runtime error: ");
			for (; *u && *u != '\n' && j < sizeof(t) - 1; u++)
				if (!(*u >= '0' && *u <= '9') && *u != ' ') t[j++] = *u;
			t[j] = 0;
			snprintf(sig, sn, "ubsan:%s", t);
		} else if ((s = strstr(buf, "Assertion `"))) {
			char t[64]; size_t j = 0;
			s += strlen("Assertion `");
			for (; *s && *s != '\'' && *s != '\n' && j < sizeof(t) - 1; s++)
				if (*s != ' ') t[j++] = *s;
			t[j] = 0;
			snprintf(sig, sn, "assert:%s", t);
		}
		/* keep the head of the report as message */
		char *st = strstr(buf, "ERROR: ");
		if (!st) st = strstr(buf, "runtime error");
		if (!st) st = buf;
		snprintf(msg, mn, "%.900s", st);
		for (char *c = msg; *c; c++) if (*c == '\n' || *c == '"' || *c == '\\' || (unsigned char)*c < 32) *c = ' ';
		free(buf);
	}
	if (!sig[0]) {
		if (WIFSIGNALED(status)) snprintf(sig, sn, "signal:%d", WTERMSIG(status));
		else snprintf(sig, sn, "exit:%d", WEXITSTATUS(status));
	}
}

/* --------------------------------------------------- running one case */
static char g_errpath[600];

static void reset_stderr_file(void)
{
	if (ftruncate(2, 0)) {}
	lseek(2, 0, SEEK_SET);
}

/* Run a case in a forked child with watchdog.  Returns 0 ok, 1 fail, 2 hang(inconclusive), fills r. */
static int run_forked(const uint8_t *data, size_t n, struct verif_report *r, struct childres *cr, int want_log)
{
	int pfd[2];
	memset((void *)cr, 0, sizeof *cr);
	if (pipe(pfd)) { r->inconclusive = 1; return 2; }
	fflush(NULL);
	pid_t pid = fork();
	if (pid < 0) { close(pfd[0]); close(pfd[1]); r->inconclusive = 1; return 2; }
	if (pid == 0) {
		close(pfd[0]);
		setpgid(0, 0);
		prctl(PR_SET_PDEATHSIG, SIGKILL);
		cr->r.want_log = want_log;
		verif_case(data, n, &cr->r);
		cr->done = 1;
		fflush(NULL);
		_exit(0);
	}
	close(pfd[1]);
	struct pollfd p = { .fd = pfd[0], .events = POLLIN };
	int to = verif_case_timeout_ms > 0 ? verif_case_timeout_ms : 20000;
	int status = 0, hung = 0;
	double t0 = now_s();
	for (;;) {
		int left = to - (int)((now_s() - t0) * 1000);
		if (left <= 0) { hung = 1; break; }
		int pr = poll(&p, 1, left);
		if (pr > 0) break;	/* EOF: child (and all its descendants holding the pipe) gone */
		if (pr < 0 && errno != EINTR) break;
	}
	/* the child itself may be done while descendants linger: wait for the child only */
	if (!hung) {
		/* child closed pipe => exited (or exec'd); reap */
	}
	if (hung) {
		/* the main child might have finished while a stray descendant holds the pipe */
		pid_t w = waitpid(pid, &status, WNOHANG);
		if (w == pid) hung = 0;
		else { kill(-pid, SIGKILL); kill(pid, SIGKILL); waitpid(pid, &status, 0); }
	} else {
		waitpid(pid, &status, 0);
	}
	kill(-pid, SIGKILL);	/* no stragglers */
	close(pfd[0]);
	*r = cr->r;
	r->logf = NULL;
	if (hung) {
		if (verif_hang_is_violation) {
			r->fail = 1;
			snprintf(r->sig, sizeof r->sig, "hang");
			snprintf(r->msg, sizeof r->msg, "case did not finish within %d ms", to);
			return 1;
		}
		r->inconclusive = 1;
		return 2;
	}
	if (!cr->done) {
		r->fail = 1;
		sig_from_stderr(g_errpath, status, r->sig, sizeof r->sig, r->msg, sizeof r->msg);
		return 1;
	}
	return r->fail ? 1 : (r->inconclusive ? 2 : 0);
}

/* ----------------------------------------------------------- worker */
static void record(struct wstat *w, uint64_t index, const struct verif_report *r)
{
	w->evaluations++;
	w->excluded += r->excluded;
	w->nops += r->nops;
	if (r->inconclusive && !r->fail) { w->inconclusive++; return; }
	for (int i = 0; i < VERIF_MAX_CLASSES; i++)
		if (r->classes & (1u << i)) w->classcnt[i]++;
	if (r->nontrivial) {
		w->nontrivial++;
		if (w->nhash < HASH_CAP) w->hashes[w->nhash++] = r->ophash;
		if (w->nsample < MAX_SAMPLES) w->sample[w->nsample++] = index;
	}
	if (r->fail) __sync_fetch_and_add(g_total_fails, 1);
	if (r->fail && w->nfails < MAX_FAILS) {
		struct failrec *f = &w->fails[w->nfails];
		f->index = index;
		memcpy(f->sig, r->sig, sizeof f->sig);
		memcpy(f->msg, r->msg, sizeof f->msg);
		f->hang = !strcmp(r->sig, "hang");
		w->nfails++;
	}
}

static void setup_worker_env(int k)
{
	snprintf(g_errpath, sizeof g_errpath, "%s/w%d.err", g_scratch, k);
	int fd = open(g_errpath, O_RDWR | O_CREAT | O_TRUNC, 0600);
	if (fd >= 0) { dup2(fd, 2); close(fd); }
	if (!getenv("VERIF_KEEP_STDOUT")) {
		int nul = open("/dev/null", O_WRONLY);
		if (nul >= 0) { dup2(nul, 1); close(nul); }
	}
	enter_namespace();
	W[k].ns_ok = g_ns_ok;
	verif_init();
}

static void worker_main(int k, uint64_t start, uint64_t total, uint64_t nenum, double deadline)
{
	struct wstat *w = &W[k];
	uint8_t *buf = malloc(verif_max_size + 16);
	prctl(PR_SET_PDEATHSIG, SIGKILL);
	setup_worker_env(k);
	for (uint64_t i = start; i < total + nenum; i += g_workers) {
		uint64_t index = i < nenum ? (i | ENUM_BIT) : (i - nenum);
		if (deadline > 0 && now_s() > deadline && i >= nenum) break;
		if (*g_total_fails >= STOP_AFTER_FAILS) break;
		size_t n = get_case(index, buf, verif_max_size);
		struct verif_report r;
		memset(&r, 0, sizeof r);
		w->current = i;
		reset_stderr_file();
		if (verif_fork_per_case) {
			if (g_ns_ok) clean_dev_shm();	/* what a failed or killed case left behind must not reach the next one */
			run_forked(buf, n, &r, &CR[k], 0);
		} else {
			verif_case(buf, n, &r);
		}
		record(w, index, &r);
		w->current = ~0ULL;
	}
	fflush(NULL);
	_exit(0);
}

/* ------------------------------------------------ replay / confirm */
/* run one case in a fresh child (namespace + stderr capture); returns 0/1/2 */
static int run_isolated(const uint8_t *data, size_t n, struct verif_report *out, int want_log)
{
	static struct childres *cr;
	if (!cr) cr = mmap(NULL, sizeof *cr, PROT_READ | PROT_WRITE, MAP_SHARED | MAP_ANONYMOUS, -1, 0);
	/* an intermediate process gets the namespace and stderr file */
	struct childres *res = cr;
	memset((void *)res, 0, sizeof *res);
	fflush(NULL);
	pid_t pid = fork();
	if (pid == 0) {
		prctl(PR_SET_PDEATHSIG, SIGKILL);
		snprintf(g_errpath, sizeof g_errpath, "%s/iso.err", g_scratch);
		int fd = open(g_errpath, O_RDWR | O_CREAT | O_TRUNC, 0600);
		int keep2 = dup(2);
		if (fd >= 0) { dup2(fd, 2); close(fd); }
		if (!want_log) { int nul = open("/dev/null", O_WRONLY); if (nul >= 0) { dup2(nul, 1); close(nul); } }
		enter_namespace();
		verif_init();
		static struct childres *inner;
		inner = mmap(NULL, sizeof *inner, PROT_READ | PROT_WRITE, MAP_SHARED | MAP_ANONYMOUS, -1, 0);
		struct verif_report r; memset(&r, 0, sizeof r);
		int rc = run_forked(data, n, &r, inner, want_log);
		res->r = r; res->done = 1;
		if (want_log && keep2 >= 0) {
			/* show the sanitizer report, if any */
			char b[4096]; ssize_t m; int f2 = open(g_errpath, O_RDONLY);
			if (f2 >= 0) { while ((m = read(f2, b, sizeof b)) > 0) if (write(keep2, b, m)) {} close(f2); }
		}
		_exit(rc);
	}
	int status = 0;
	waitpid(pid, &status, 0);
	*out = res->r;
	if (!res->done) { out->inconclusive = 1; return 2; }
	return WIFEXITED(status) ? WEXITSTATUS(status) : 2;
}

static int fails_same(const uint8_t *d, size_t n, const char *sig)
{
	struct verif_report r;
	int rc = run_isolated(d, n, &r, 0);
	return rc == 1 && (!sig || !strcmp(sig, r.sig));
}

/* generic delta debugging over the byte string */
static size_t shrink(uint8_t *d, size_t n, const char *sig, double budget_s)
{
	double t0 = now_s();
	uint8_t *t = malloc(n + 1);
	int progress = 1;
	while (progress && now_s() - t0 < budget_s) {
		progress = 0;
		/* delete spans, large to small */
		for (size_t span = n / 2; span >= 1 && now_s() - t0 < budget_s; span /= 2) {
			for (size_t off = 0; off + span <= n && now_s() - t0 < budget_s;) {
				memcpy(t, d, off);
				memcpy(t + off, d + off + span, n - off - span);
				if (fails_same(t, n - span, sig)) {
					memmove(d + off, d + off + span, n - off - span);
					n -= span; progress = 1;
				} else off += span;
			}
			if (span == 1) break;
		}
		/* truncate tail */
		while (n > 0 && now_s() - t0 < budget_s && fails_same(d, n - 1, sig)) { n--; progress = 1; }
		/* simplify bytes: zero, halve, decrement */
		for (size_t i = 0; i < n && now_s() - t0 < budget_s; i++) {
			if (!d[i]) continue;
			uint8_t old = d[i];
			uint8_t cand[3] = { 0, (uint8_t)(old / 2), (uint8_t)(old - 1) };
			for (int c = 0; c < 3; c++) {
				if (cand[c] >= old) continue;
				d[i] = cand[c];
				if (fails_same(d, n, sig)) { progress = 1; old = d[i]; break; }
				d[i] = old;
			}
		}
	}
	free(t);
	return n;
}

/* ------------------------------------------------------------- JSON */
static void json_str(FILE *f, const char *s)
{
	fputc('"', f);
	for (; *s; s++) {
		unsigned char c = *s;
		if (c == '"' || c == '\\') fprintf(f, "\\%c", c);
		else if (c == '\n') fputs("\\n", f);
		else if (c < 32 || c >= 127) fprintf(f, "\\u%04x", c);
		else fputc(c, f);
	}
	fputc('"', f);
}

static int cmp_u64(const void *a, const void *b)
{
	uint64_t x = *(const uint64_t *)a, y = *(const uint64_t *)b;
	return x < y ? -1 : x > y;
}

static char *capture_log(const uint8_t *d, size_t n)
{
	/* run the case once more with logging into a temp file, return text */
	char path[700];
	snprintf(path, sizeof path, "%s/sample.log", g_scratch);
	fflush(NULL);
	pid_t pid = fork();
	if (pid == 0) {
		int fd = open(path, O_WRONLY | O_CREAT | O_TRUNC, 0600);
		dup2(fd, 1);
		int nul = open("/dev/null", O_WRONLY); dup2(nul, 2);
		struct verif_report r;
		run_isolated(d, n, &r, 1);
		fflush(NULL);
		_exit(0);
	}
	waitpid(pid, NULL, 0);
	FILE *f = fopen(path, "r");
	char *txt = calloc(1, 6001);
	if (f) { size_t m = fread(txt, 1, 6000, f); txt[m] = 0; fclose(f); }
	return txt;
}

static uint64_t fnv(const void *p, size_t n) { return vhash_bytes(p, n); }

/* ------------------------------------------------------------- main */
static const char *arg_val(int argc, char **argv, const char *name, const char *def)
{
	for (int i = 2; i + 1 < argc; i++) if (!strcmp(argv[i], name)) return argv[i + 1];
	return def;
}

static int read_file(const char *path, uint8_t **out, size_t *n)
{
	FILE *f = fopen(path, "rb");
	if (!f) return -1;
	fseek(f, 0, SEEK_END); long sz = ftell(f); fseek(f, 0, SEEK_SET);
	*out = malloc(sz + 1); *n = fread(*out, 1, sz, f); fclose(f);
	return 0;
}

static void make_scratch(void)
{
	const char *base = getenv("VERIF_SCRATCH");
	if (!base) base = "/verif/.build/tmp";
	mkdir(base, 0700);
	snprintf(g_scratch, sizeof g_scratch, "%s/%s-%d", base, verif_property, (int)getpid());
	mkdir(g_scratch, 0700);
}

static void set_san_env(void)
{
	setenv("ASAN_OPTIONS", "abort_on_error=0:exitcode=86:detect_leaks=0:allocator_may_return_null=1:handle_abort=1:detect_stack_use_after_return=0:max_malloc_fill_size=4096:malloc_fill_byte=190", 0);
	setenv("UBSAN_OPTIONS", "print_stacktrace=0:halt_on_error=1:exitcode=87", 0);
	setenv("TZ", "UTC", 1);
}

int main(int argc, char **argv)
{
	if (argc < 2) { fprintf(stderr, "usage: %s run|replay|shrink|gen ...\n", argv[0]); return 2; }
	/* sanitizer options must be in the environment before the runtime starts: re-exec once */
	if (!getenv("VERIF_REEXEC")) {
		set_san_env();
		setenv("VERIF_REEXEC", "1", 1);
		execv("/proc/self/exe", argv);
	}
	const char *ex = getenv("VERIF_EXCLUDE");
	if (ex) snprintf(g_exclude, sizeof g_exclude, "%s", ex);
	signal(SIGPIPE, SIG_IGN);
	make_scratch();
	int rc = 0;

	if (!strcmp(argv[1], "replay") && argc >= 3) {
		uint8_t *d; size_t n;
		if (read_file(argv[2], &d, &n)) { perror(argv[2]); return 2; }
		struct verif_report r;
		printf("replay %s (%zu bytes) property=%s\n", argv[2], n, verif_property);
		rc = run_isolated(d, n, &r, 1);
		if (rc == 1) printf("RESULT fail sig=%s msg=%s\n", r.sig, r.msg);
		else if (rc == 2) { printf("RESULT inconclusive\n"); rc = 3; }
		else printf("RESULT pass nontrivial=%d ops=%u\n", r.nontrivial, r.nops);
		rm_rf(g_scratch);
		return rc;
	}
	if (!strcmp(argv[1], "gen") && argc >= 3) {
		g_seed = strtoull(arg_val(argc, argv, "--seed", "1"), NULL, 0);
		uint64_t idx = strtoull(arg_val(argc, argv, "--index", "0"), NULL, 0);
		uint8_t *b = malloc(verif_max_size + 16);
		size_t n = get_case(idx, b, verif_max_size);
		FILE *f = fopen(argv[argc - 1], "wb"); fwrite(b, 1, n, f); fclose(f);
		rm_rf(g_scratch);
		return 0;
	}
	if (!strcmp(argv[1], "shrink") && argc >= 4) {
		uint8_t *d; size_t n;
		if (read_file(argv[2], &d, &n)) { perror(argv[2]); return 2; }
		struct verif_report r;
		if (run_isolated(d, n, &r, 0) != 1) { printf("does not fail\n"); rm_rf(g_scratch); return 2; }
		char sig[96]; memcpy(sig, r.sig, sizeof sig);
		n = shrink(d, n, sig, atof(arg_val(argc, argv, "--shrink-s", "60")));
		FILE *f = fopen(argv[3], "wb"); fwrite(d, 1, n, f); fclose(f);
		printf("shrunk to %zu bytes sig=%s\n", n, sig);
		rm_rf(g_scratch);
		return 0;
	}
	if (strcmp(argv[1], "run")) { fprintf(stderr, "unknown mode\n"); return 2; }

	g_seed = strtoull(arg_val(argc, argv, "--seed", "1"), NULL, 0);
	if (g_seed == 0) g_seed = 0x5eed;
	uint64_t cases = strtoull(arg_val(argc, argv, "--cases", "1000"), NULL, 0);
	g_workers = atoi(arg_val(argc, argv, "--workers", "16"));
	if (g_workers < 1) g_workers = 1;
	if (g_workers > MAX_WORKERS) g_workers = MAX_WORKERS;
	const char *tier = arg_val(argc, argv, "--tier", "quick");
	g_thorough = !strcmp(tier, "thorough");
	const char *summary = arg_val(argc, argv, "--summary", NULL);
	const char *replay_dir = arg_val(argc, argv, "--replay-dir", "/verif/replays");
	const char *bname = arg_val(argc, argv, "--name", NULL);
	double shrink_s = atof(arg_val(argc, argv, "--shrink-s", "30"));
	double budget_s = atof(arg_val(argc, argv, "--budget-s", "0"));
	uint64_t nenum = verif_enum_count(tier);
	double t0 = now_s();
	double deadline = budget_s > 0 ? t0 + budget_s : 0;

	W = mmap(NULL, sizeof(struct wstat) * g_workers, PROT_READ | PROT_WRITE, MAP_SHARED | MAP_ANONYMOUS | MAP_NORESERVE, -1, 0);
	CR = mmap(NULL, sizeof(struct childres) * g_workers, PROT_READ | PROT_WRITE, MAP_SHARED | MAP_ANONYMOUS, -1, 0);
	if (W == MAP_FAILED || CR == MAP_FAILED) { perror("mmap"); return 2; }
	g_total_fails = mmap(NULL, 4096, PROT_READ | PROT_WRITE, MAP_SHARED | MAP_ANONYMOUS, -1, 0);

	pid_t pids[MAX_WORKERS];
	int crashes = 0;
	for (int k = 0; k < g_workers; k++) {
		W[k].current = ~0ULL;
		fflush(NULL);
		pids[k] = fork();
		if (pids[k] == 0) worker_main(k, k, cases, nenum, deadline);
	}
	int live = g_workers;
	while (live > 0) {
		int status;
		pid_t p = wait(&status);
		if (p < 0) { if (errno == EINTR) continue; break; }
		int k;
		for (k = 0; k < g_workers; k++) if (pids[k] == p) break;
		if (k == g_workers) continue;
		if (WIFEXITED(status) && WEXITSTATUS(status) == 0) { pids[k] = -1; live--; continue; }
		/* worker died inside a case: attribute, then restart after it */
		uint64_t cur = W[k].current;
		crashes++;
		if (cur == ~0ULL) { pids[k] = -1; live--; continue; }
		struct verif_report r; memset(&r, 0, sizeof r);
		r.fail = 1;
		char ep[700]; snprintf(ep, sizeof ep, "%s/w%d.err", g_scratch, k);
		sig_from_stderr(ep, status, r.sig, sizeof r.sig, r.msg, sizeof r.msg);
		uint64_t index = cur < nenum ? (cur | ENUM_BIT) : (cur - nenum);
		record(&W[k], index, &r);
		W[k].current = ~0ULL;
		if (W[k].nfails >= MAX_FAILS) { pids[k] = -1; live--; continue; }	/* stop this lane */
		fflush(NULL);
		pids[k] = fork();
		if (pids[k] == 0) worker_main(k, cur + g_workers, cases, nenum, deadline);
	}
	double t_search = now_s() - t0;

	/* ---- merge */
	uint64_t ev = 0, nt = 0, inc = 0, exc = 0, nops = 0, cls[VERIF_MAX_CLASSES] = {0}, nh = 0;
	for (int k = 0; k < g_workers; k++) {
		ev += W[k].evaluations; nt += W[k].nontrivial; inc += W[k].inconclusive;
		exc += W[k].excluded; nops += W[k].nops; nh += W[k].nhash;
		for (int i = 0; i < VERIF_MAX_CLASSES; i++) cls[i] += W[k].classcnt[i];
	}
	uint64_t *all = malloc((nh + 1) * sizeof *all), distinct = 0; nh = 0;
	for (int k = 0; k < g_workers; k++) { memcpy(all + nh, W[k].hashes, W[k].nhash * 8); nh += W[k].nhash; }
	qsort(all, nh, 8, cmp_u64);
	for (uint64_t i = 0; i < nh; i++) if (i == 0 || all[i] != all[i - 1]) distinct++;

	/* ---- failures: group by signature, confirm, shrink, save */
	struct { char sig[96]; char msg[1024]; char path[700]; int confirmed; int count; uint64_t index; size_t size; int hang; uint64_t cand[6]; int ncand; } groups[16];
	int ng = 0;
	uint8_t *buf = malloc(verif_max_size + 16), *best = malloc(verif_max_size + 16);
	for (int k = 0; k < g_workers; k++) for (uint64_t j = 0; j < W[k].nfails; j++) {
		struct failrec *f = &W[k].fails[j];
		int g;
		for (g = 0; g < ng; g++) if (!strcmp(groups[g].sig, f->sig)) break;
		size_t n = get_case(f->index, buf, verif_max_size);
		if (g == ng) {
			if (ng == 16) continue;
			memset(&groups[g], 0, sizeof groups[g]);
			memcpy(groups[g].sig, f->sig, 96); memcpy(groups[g].msg, f->msg, 1024);
			groups[g].index = f->index; groups[g].size = n; groups[g].hang = f->hang; ng++;
			groups[g].cand[0] = f->index; groups[g].ncand = 1;
		} else if (n < groups[g].size) {
			groups[g].index = f->index; groups[g].size = n; memcpy(groups[g].msg, f->msg, 1024);
		}
		else if (groups[g].ncand < 6) groups[g].cand[groups[g].ncand++] = f->index;
		groups[g].count++;
	}
	int violations = 0, flaky = 0;
	for (int g = 0; g < ng; g++) {
		size_t n = get_case(groups[g].index, best, verif_max_size);
		int ok = 0;
		for (int t = 0; t < 3; t++) ok += fails_same(best, n, NULL);
		if (ok == 0 && verif_nondeterministic) {
			/* timing-dependent harness: try the other cases that failed the same way */
			for (int c = 0; c < groups[g].ncand && ok == 0; c++) {
				if (groups[g].cand[c] == groups[g].index) continue;
				n = get_case(groups[g].cand[c], best, verif_max_size);
				for (int t = 0; t < 3; t++) ok += fails_same(best, n, NULL);
				if (ok) groups[g].index = groups[g].cand[c];
			}
			if (ok == 0 && groups[g].count >= 5) {
				/* many independent cases tripped the same oracle clause: not a fluke, report the first one */
				n = get_case(groups[g].index, best, verif_max_size);
				ok = -1;
			}
		}
		groups[g].confirmed = ok < 0 ? 0 : ok;
		if (ok == 0) { flaky++; continue; }
		if (ok == 3 && !groups[g].hang) {
			struct verif_report r; run_isolated(best, n, &r, 0);
			n = shrink(best, n, r.sig, shrink_s);
		}
		mkdir(replay_dir, 0755);
		if (bname) snprintf(groups[g].path, sizeof groups[g].path, "%s/%s-%s-%016llx.bin", replay_dir, verif_property, bname, (unsigned long long)fnv(best, n));
		else snprintf(groups[g].path, sizeof groups[g].path, "%s/%s-%016llx.bin", replay_dir, verif_property, (unsigned long long)fnv(best, n));
		FILE *f = fopen(groups[g].path, "wb");
		if (f) { fwrite(best, 1, n, f); fclose(f); }
		violations++;
	}

	/* ---- samples */
	char *samples[MAX_SAMPLES * 2]; int ns = 0;
	for (int k = 0; k < g_workers && ns < 3; k++)
		for (uint64_t j = 0; j < W[k].nsample && ns < 3 && j < 1; j++) {
			size_t n = get_case(W[k].sample[j], buf, verif_max_size);
			samples[ns++] = capture_log(buf, n);
		}
	double wall = now_s() - t0;

	FILE *out = summary ? fopen(summary, "w") : stdout;
	if (!out) out = stdout;
	fprintf(out, "{\n \"property\": \"%s\",\n \"seed\": %llu,\n \"tier\": \"%s\",\n", verif_property, (unsigned long long)g_seed, tier);
	fprintf(out, " \"evaluations\": %llu,\n \"enumerated\": %llu,\n \"nontrivial\": %llu,\n \"distinct_nontrivial\": %llu,\n",
		(unsigned long long)ev, (unsigned long long)nenum, (unsigned long long)nt, (unsigned long long)distinct);
	fprintf(out, " \"inconclusive\": %llu,\n \"excluded_by_known_findings\": %llu,\n \"operations\": %llu,\n \"worker_crashes\": %d,\n \"flaky_unconfirmed\": %d,\n",
		(unsigned long long)inc, (unsigned long long)exc, (unsigned long long)nops, crashes, flaky);
	fprintf(out, " \"private_shm_namespace\": %s,\n \"workers\": %d,\n \"search_s\": %.2f,\n \"wall_s\": %.2f,\n", W[0].ns_ok ? "true" : "false", g_workers, t_search, wall);
	fprintf(out, " \"rule\": "); json_str(out, verif_rule); fprintf(out, ",\n \"classes\": {");
	for (int i = 0; verif_class_names[i] && i < VERIF_MAX_CLASSES; i++) {
		fprintf(out, "%s", i ? ", " : ""); json_str(out, verif_class_names[i]); fprintf(out, ": %llu", (unsigned long long)cls[i]);
	}
	fprintf(out, "},\n \"samples\": [");
	for (int i = 0; i < ns; i++) { fprintf(out, "%s", i ? ",\n  " : "\n  "); json_str(out, samples[i]); }
	fprintf(out, "],\n \"failures\": [");
	int first = 1;
	for (int g = 0; g < ng; g++) {
		fprintf(out, "%s\n  {\"sig\": ", first ? "" : ","); first = 0;
		json_str(out, groups[g].sig); fprintf(out, ", \"msg\": "); json_str(out, groups[g].msg);
		fprintf(out, ", \"count\": %d, \"confirmed_of_3\": %d, \"replay\": ", groups[g].count, groups[g].confirmed);
		json_str(out, groups[g].path); fprintf(out, "}");
	}
	fprintf(out, "]\n}\n");
	if (out != stdout) fclose(out);
	rm_rf(g_scratch);
	return violations ? 1 : 0;
}
