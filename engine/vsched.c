/*
 * sched.c - cooperative schedule engine for the concurrency properties (C01, C19).
 *
 * The parties of a case are real threads, but exactly one of them holds the
 * baton at any time.  Yield points are
 *   - every load/store the compiler instrumented in the "sched" variant of
 *     ringbuffer.c / ringbuffer_helper.c / array.c
 *     (-fsanitize-coverage=trace-loads,trace-stores) whose address lies in a
 *     registered shared region, and
 *   - every wrapped synchronisation call (semaphores, spin locks).
 * At a yield point the next schedule choice of the case decides whether the
 * running party continues or which other party gets the baton.  The explored
 * memory model is therefore sequential consistency at the granularity of
 * individual shared accesses.  Because the instrumentation is inserted by the
 * compiler, reordering statements in libqb moves the yield points with them.
 */
#ifndef _GNU_SOURCE
#define _GNU_SOURCE
#endif
#include <pthread.h>
#include <semaphore.h>
#include <stdlib.h>
#include <string.h>
#include <errno.h>
#include <stdint.h>
#include "verif.h"
#include "vsched.h"

#define MAXP 4
#define MAXREG 16

static struct {
	pthread_mutex_t mu;
	pthread_cond_t cv[MAXP];
	int n, cur, done[MAXP], blocked[MAXP];
	int active;			/* engine is scheduling */
	struct vr *choices;
	const uint8_t *forced; size_t nforced, fpos;	/* explicit schedule (enumerator) */
	struct { uintptr_t lo, hi; } reg[MAXREG]; int nreg;
	unsigned long yields, switches, budget;
	unsigned switches_in_call[MAXP];
	int in_call[MAXP];
	int deadlock, overrun;
	void (*fn[MAXP])(void *); void *arg[MAXP];
	uint64_t trace;			/* hash of the effective schedule */
	int preempt_limit, preempts;	/* bound for enumeration */
	unsigned threshold;		/* choice bytes >= threshold preempt */
	unsigned quiet;			/* yields left during which the running party is not preempted */
} S = { .mu = PTHREAD_MUTEX_INITIALIZER };

static __thread int my_id = -1;

void sched_region_add(const void *p, size_t len)
{
	if (S.nreg < MAXREG) { S.reg[S.nreg].lo = (uintptr_t)p; S.reg[S.nreg].hi = (uintptr_t)p + len; S.nreg++; }
}
void sched_region_clear(void) { S.nreg = 0; }
void sched_set_threshold(unsigned t) { S.threshold = t; }
int sched_self(void) { return my_id; }
unsigned long sched_yields(void) { return S.yields; }
unsigned long sched_switches(void) { return S.switches; }
unsigned sched_switches_in_call(int p) { return S.switches_in_call[p]; }
uint64_t sched_trace(void) { return S.trace; }
int sched_deadlocked(void) { return S.deadlock; }
int sched_overrun(void) { return S.overrun; }
void sched_enter_call(void) { if (my_id >= 0) S.in_call[my_id] = 1; }
void sched_leave_call(void) { if (my_id >= 0) S.in_call[my_id] = 0; }

static int pick_runnable(int from, int allow_blocked)
{
	for (int k = 1; k <= S.n; k++) {
		int j = (from + k) % S.n;
		if (!S.done[j] && (allow_blocked || !S.blocked[j])) return j;
	}
	return -1;
}

/* hand the baton to party j and wait until it comes back (mu held) */
static void switch_to(int j)
{
	int me = my_id;
	S.cur = j;
	S.switches++;
	if (me >= 0 && S.in_call[me]) S.switches_in_call[me]++;
	S.trace = vmix(S.trace, ((uint64_t)S.yields << 8) | (unsigned)j);
	pthread_cond_signal(&S.cv[j]);
	while (S.cur != me) pthread_cond_wait(&S.cv[me], &S.mu);
}

/* a point at which another party may be scheduled */
static void yield_point(int sync_point)
{
	if (!S.active || my_id < 0) return;
	pthread_mutex_lock(&S.mu);
	S.yields++;
	if (S.yields > S.budget) { S.overrun = 1; pthread_mutex_unlock(&S.mu); return; }	/* no more preemptions: parties run to completion one after the other */
	int want = -1;
	if (S.forced) {
		/* enumerator: forced[k] = yield index at which to preempt (sorted), then target party */
		if (S.fpos + 5 <= S.nforced) {
			uint32_t at; memcpy(&at, S.forced + S.fpos, 4);
			if (at == S.yields) { want = S.forced[S.fpos + 4] == 0xFF ? (my_id + 1) % S.n : S.forced[S.fpos + 4] % S.n; S.fpos += 5; }
			else if (at < S.yields) S.fpos += 5;	/* missed (cannot happen with sorted positions) */
		}
	} else if (S.quiet) {
		S.quiet--;
	} else if (S.choices && !vr_eof(S.choices)) {
		unsigned b = vr_u8(S.choices), t = S.threshold ? S.threshold : 192;
		/* low values = "continue", so shrinking removes preemptions; synchronisation points preempt 4x as often */
		if (sync_point) t = 256 - 4 * (256 - t) > 64 ? 256 - 4 * (256 - t) : 64;
		if (b >= t) {
			want = (my_id + 1 + (b & 3) % (S.n > 1 ? S.n - 1 : 1)) % S.n;
			/* the party switched to gets an uninterrupted run of 0..63 yield points */
			S.quiet = vr_u8(S.choices) % 64;
		}
	}
	if (want >= 0 && want != my_id && !S.done[want] && !S.blocked[want]) switch_to(want);
	pthread_mutex_unlock(&S.mu);
}

void sched_yield_point(void) { yield_point(0); }
static void sched_sync_point(void) { yield_point(1); }

/* the running party cannot make progress (lock held by someone else): let others run.
 * returns 0 if somebody else ran, -1 if nobody can (deadlock) */
int sched_block_and_switch(void)
{
	if (!S.active || my_id < 0) return -1;
	pthread_mutex_lock(&S.mu);
	S.blocked[my_id] = 1;
	int j = pick_runnable(my_id, 0);
	if (j < 0) {
		S.blocked[my_id] = 0;
		S.deadlock = 1;
		pthread_mutex_unlock(&S.mu);
		return -1;
	}
	S.yields++;
	switch_to(j);
	S.blocked[my_id] = 0;
	pthread_mutex_unlock(&S.mu);
	return 0;
}

static void *party_main(void *a)
{
	int id = (int)(intptr_t)a;
	my_id = id;
	pthread_mutex_lock(&S.mu);
	while (S.cur != id) pthread_cond_wait(&S.cv[id], &S.mu);
	pthread_mutex_unlock(&S.mu);
	S.fn[id](S.arg[id]);
	pthread_mutex_lock(&S.mu);
	S.done[id] = 1;
	S.in_call[id] = 0;
	int j = pick_runnable(id, 1);
	if (j >= 0) { S.cur = j; S.blocked[j] = 0; pthread_cond_signal(&S.cv[j]); }
	else S.cur = -1;
	pthread_mutex_unlock(&S.mu);
	my_id = -1;
	return NULL;
}

/* run n parties under the baton; schedule choices come from 'choices' (random/fuzz) or 'forced' (enumeration) */
int sched_run(int n, void (*fn[])(void *), void *arg[], struct vr *choices, const uint8_t *forced, size_t nforced, unsigned long budget)
{
	pthread_t th[MAXP];
	if (n > MAXP) n = MAXP;
	S.n = n; S.cur = 0; S.active = 1; S.choices = choices; S.forced = forced; S.nforced = nforced; S.fpos = 0;
	S.quiet = 0;
	S.yields = S.switches = 0; S.budget = budget ? budget : 200000; S.deadlock = S.overrun = 0; S.trace = 0;
	for (int i = 0; i < n; i++) {
		S.done[i] = S.blocked[i] = 0; S.switches_in_call[i] = 0; S.in_call[i] = 0;
		S.fn[i] = fn[i]; S.arg[i] = arg[i];
		pthread_cond_init(&S.cv[i], NULL);
	}
	for (int i = 0; i < n; i++) pthread_create(&th[i], NULL, party_main, (void *)(intptr_t)i);
	for (int i = 0; i < n; i++) pthread_join(th[i], NULL);
	S.active = 0;
	return (S.deadlock || S.overrun) ? -1 : 0;
}

/* ---- compiler instrumentation entry points */
static inline void on_access(const void *addr)
{
	if (!S.active || my_id < 0) return;
	uintptr_t a = (uintptr_t)addr;
	for (int i = 0; i < S.nreg; i++)
		if (a >= S.reg[i].lo && a < S.reg[i].hi) { sched_yield_point(); return; }
}
void __sanitizer_cov_load1(uint8_t *a) { on_access(a); }
void __sanitizer_cov_load2(uint16_t *a) { on_access(a); }
void __sanitizer_cov_load4(uint32_t *a) { on_access(a); }
void __sanitizer_cov_load8(uint64_t *a) { on_access(a); }
void __sanitizer_cov_load16(void *a) { on_access(a); }
void __sanitizer_cov_store1(uint8_t *a) { on_access(a); }
void __sanitizer_cov_store2(uint16_t *a) { on_access(a); }
void __sanitizer_cov_store4(uint32_t *a) { on_access(a); }
void __sanitizer_cov_store8(uint64_t *a) { on_access(a); }
void __sanitizer_cov_store16(void *a) { on_access(a); }
void __sanitizer_cov_trace_pc_guard(uint32_t *g) { (void)g; }
void __sanitizer_cov_trace_pc_guard_init(uint32_t *a, uint32_t *b) { (void)a; (void)b; }

/* ---- wrapped synchronisation (link with --wrap=...) */
int __real_pthread_spin_lock(pthread_spinlock_t *l);
int __real_pthread_spin_trylock(pthread_spinlock_t *l);
int __real_pthread_spin_unlock(pthread_spinlock_t *l);
int __real_sem_post(sem_t *s);
int __real_sem_trywait(sem_t *s);
int __real_sem_wait(sem_t *s);
int __real_sem_timedwait(sem_t *s, const struct timespec *t);
int __real_sem_getvalue(sem_t *s, int *v);

int __wrap_pthread_spin_lock(pthread_spinlock_t *l)
{
	if (!S.active || my_id < 0) return __real_pthread_spin_lock(l);
	sched_sync_point();
	for (;;) {
		if (pthread_spin_trylock(l) == 0) return 0;
		if (sched_block_and_switch() < 0) return EDEADLK;
		if (!S.active) return __real_pthread_spin_lock(l);
	}
}
int __wrap_pthread_spin_unlock(pthread_spinlock_t *l)
{
	int rc = __real_pthread_spin_unlock(l);
	sched_sync_point();
	return rc;
}
int __wrap_sem_post(sem_t *s) { sched_sync_point(); int rc = __real_sem_post(s); sched_sync_point(); return rc; }
int __wrap_sem_trywait(sem_t *s) { sched_sync_point(); int rc = __real_sem_trywait(s); int e = errno; sched_sync_point(); errno = e; return rc; }
int __wrap_sem_getvalue(sem_t *s, int *v) { sched_sync_point(); return __real_sem_getvalue(s, v); }
int __wrap_sem_wait(sem_t *s)
{
	if (!S.active || my_id < 0) return __real_sem_wait(s);
	for (;;) {
		if (__real_sem_trywait(s) == 0) return 0;
		if (errno != EAGAIN) return -1;
		if (sched_block_and_switch() < 0) { errno = EDEADLK; return -1; }
		if (!S.active) return __real_sem_wait(s);
	}
}
int __wrap_sem_timedwait(sem_t *s, const struct timespec *t)
{
	if (!S.active || my_id < 0) return __real_sem_timedwait(s, t);
	/* virtual: give the others one chance, then time out */
	sched_sync_point();
	if (__real_sem_trywait(s) == 0) return 0;
	if (sched_block_and_switch() == 0 && __real_sem_trywait(s) == 0) return 0;
	errno = ETIMEDOUT;
	return -1;
}
