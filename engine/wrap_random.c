/*
 * wrap_random.c - link with -Wl,--wrap=random,--wrap=srandom,--wrap=srand,--wrap=rand
 * libqb's calls to random() get a per-case deterministic stream of values that
 * NEVER repeats within a case (a repeat would let a stale 31-bit handle check
 * collide, which the properties explicitly do not quantify over).
 */
#include <stdint.h>
#include "verif.h"

static uint32_t ctr, salt;

void verif_random_reset(uint32_t s) { ctr = 0; salt = s; }

static uint32_t perm31(uint32_t x)
{
	/* bijection on 31-bit values */
	x = (x * 0x9E3779B1u) & 0x7fffffffu;
	x ^= x >> 15;
	x = (x * 0x85EBCA6Bu) & 0x7fffffffu;
	x ^= x >> 13;
	return x;
}

long __wrap_random(void)
{
	uint32_t v;
	do {
		v = perm31((ctr++ + salt * 7919u) & 0x7fffffffu);
	} while (v == 0);
	return (long)v;
}
int __wrap_rand(void) { return (int)__wrap_random(); }
void __wrap_srandom(unsigned s) { (void)s; }
void __wrap_srand(unsigned s) { (void)s; }
