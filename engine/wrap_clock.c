/*
 * wrap_clock.c - link with -Wl,--wrap=clock_gettime
 * Virtual clocks for the checks that must be a pure function of the case
 * (C08/C09/C10: monotonic time for the loop; C15: realtime stamps of log records).
 */
#include <time.h>
#include <stdint.h>
#include "vclock.h"

int __real_clock_gettime(clockid_t c, struct timespec *ts);

static int active;
static uint64_t real_ns, mono_ns, tick_ns;
static unsigned long reads;

void vclock_enable(int on) { active = on; }
void vclock_set_real(uint64_t ns) { real_ns = ns; }
void vclock_set_mono(uint64_t ns) { mono_ns = ns; }
uint64_t vclock_mono(void) { return mono_ns; }
void vclock_advance(uint64_t ns) { mono_ns += ns; real_ns += ns; }
void vclock_set_tick(uint64_t ns) { tick_ns = ns; }	/* every read of the monotonic clock advances it by this much */
unsigned long vclock_reads(void) { return reads; }

int __wrap_clock_gettime(clockid_t c, struct timespec *ts)
{
	if (!active) return __real_clock_gettime(c, ts);
	uint64_t v;
	switch (c) {
	case CLOCK_REALTIME:
	case CLOCK_REALTIME_COARSE:
		v = real_ns; break;
	default:
		reads++;
		mono_ns += tick_ns; real_ns += tick_ns;
		v = mono_ns; break;
	}
	ts->tv_sec = v / 1000000000ULL;
	ts->tv_nsec = v % 1000000000ULL;
	return 0;
}
