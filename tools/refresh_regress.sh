#!/bin/bash
# tools/refresh_regress.sh - after tools/run_all_mutants.sh: add the shrunk reproductions that the reverse-fix mutants produced with the CURRENT
# harness decoders to replays/regress/ (each must pass three times on the current tree; harness changes alter what old replay bytes mean).
cd /verif
S=/tmp/mutant-replays
added=0
for d in $S/C??/revert-fix-* $S/C04/closed-no-reentry-guard $S/C04/retry-job-without-reference $S/C04/incomplete-disconnect-frees-at-once $S/C04/closed-done-not-remembered; do
  [ -d "$d" ] || continue
  id=$(basename $(dirname $d))
  for f in $d/*.bin; do
    [ -f "$f" ] || continue
    b=$(basename $f)
    case $b in $id-*) ;; *) continue;; esac
    [ -f replays/regress/$b ] && continue
    ok=1
    for i in 1 2 3; do ./run $id --replay $f > /tmp/rr.out 2>&1 || ok=0; grep -q "^VIOLATION" /tmp/rr.out && ok=0; done
    if [ $ok = 1 ]; then cp $f replays/regress/$b; added=$((added+1)); else echo "not added (fails on the current tree): $f"; fi
  done
done
echo "added $added regression replays"
