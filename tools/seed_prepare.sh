#!/bin/bash
# tools/seed_prepare.sh <ID> <round-letter>: scratch worktree + prompt file for a seeding sub-agent (nothing from /verif but the property text)
ID=$1; R=$2; L=$(echo $R | tr A-Z a-z)
mkdir -p /tmp/wt /tmp/seed-out/${ID}$L
git -C /repo worktree add -q --detach /tmp/wt/${ID}$L HEAD || exit 1
python3 - "$ID" "$L" <<'PY'
import json, sys
pid, l = sys.argv[1], sys.argv[2]
props = {json.loads(x)['id']: json.loads(x) for x in open('/verif/properties.jsonl')}
p = props[pid]
import os
t = open('/verif/tools/seed_prompt' + os.environ.get('TMPLSFX', '') + '.tmpl').read().format(wt=f'/tmp/wt/{pid}{l}', out=f'/tmp/seed-out/{pid}{l}', id=pid, title=p['title'],
        statement=p['statement'], qtext=p['quantifier']['text'], files=', '.join(p['anchors']['files']))
open(f'/tmp/seed-out/{pid}{l}/PROMPT.txt', 'w').write(t)
print(pid, p['title'])
PY
