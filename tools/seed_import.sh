#!/bin/bash
# tools/seed_import.sh <ID> <round-letter>: copy the agent's deliverables to seeded/<ID>-<R>, remove its worktree
ID=$1; R=$2; L=$(echo $R | tr A-Z a-z); S=/tmp/seed-out/${ID}$L; D=/verif/seeded/$ID-$R
mkdir -p $D
cp $S/patch.diff $D/patch.diff; cp $S/patch.diff $D/patch.orig.diff
for f in demo.c demo.sh README.txt meta.json; do [ -f $S/$f ] && cp $S/$f $D/; done
git -C /repo worktree remove --force /tmp/wt/${ID}$L; git -C /repo worktree prune; rm -rf $S
ls $D
