#!/bin/bash
# tools/mutant.sh <ID> <patch> [tier]  - run a check against a scratch copy of /repo with a patch applied.
# Never touches /repo or /verif/evidence; everything lives under a temp dir that is removed afterwards.
set -u
ID=$1; PATCH=$(readlink -f "$2"); TIER=${3:-quick}
T=$(mktemp -d /tmp/mut-XXXXXX)
mkdir -p $T/repo
rsync -a --exclude='*.o' --exclude='*.lo' --exclude='.libs' --exclude='.git' /repo/lib /repo/include /repo/tools $T/repo/ 
if ! (cd $T/repo && patch -p1 -s < "$PATCH"); then echo "PATCH-FAILED $PATCH"; rm -rf $T; exit 3; fi
VERIF_REPO=$T/repo VERIF_BUILD=$T/build VERIF_EVIDENCE_DIR=$T/ev VERIF_NEW_REPLAYS=$T/new /verif/run $ID $TIER > $T/out.txt 2>&1
rc=$?
grep -E "VIOLATION|KNOWN-FINDING|HARNESS-ERROR|^C[0-9]+ " $T/out.txt | cut -c1-300 | head -8
if [ -n "${KEEP_REPLAYS:-}" ] && [ -d $T/new ]; then mkdir -p $KEEP_REPLAYS; cp $T/new/* $KEEP_REPLAYS/ 2>/dev/null; fi
echo "mutant $(basename $PATCH) on $ID $TIER: exit $rc $([ $rc = 1 ] && echo KILLED || { [ $rc = 2 ] && echo HARNESS-ERROR || echo SURVIVED; })"
rm -rf $T
exit $rc
