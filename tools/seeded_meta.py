#!/usr/bin/env python3
"""Add my own confirmation to every seeded/<name>/meta.json from mutants/RESULTS.tsv (what I ran against it and what the check said)."""
import json, os, glob
V = os.path.dirname(os.path.dirname(os.path.abspath(__file__)))
res = {}
via = {}
for l in open(os.path.join(V, "mutants", "RESULTS.tsv")):
    f = l.rstrip("\n").split("\t")
    if len(f) >= 4 and f[1] == "seeded":
        res[f[2]] = f
    if len(f) >= 4 and f[1].startswith("seeded-via-"):
        via[f[2]] = f
DEMOS = {}
dl = os.path.join(V, "seeded", "DEMOS.log")
if os.path.exists(dl):
    for l in open(dl):
        w = l.split()
        if len(w) >= 3 and w[1].startswith("base=") and w[2].startswith("patched="):
            b, pz = w[1][5:], w[2][8:]
            if b == "0" and pz == "1":
                DEMOS[w[0]] = "re-run by me with tools/run_demo.sh on a scratch copy of the current tree: exit 0 (PASS) without the change, exit 1 (FAIL) with seeded/%s/patch.diff applied" % w[0]
            elif b == "0" and pz == "0":
                DEMOS[w[0]] = "re-run by me with tools/run_demo.sh on the current (repaired) tree: PASS both without and with the change - a later fix: commit took the mechanism it needs away (see note)"
NOTES = {
    "C20-A": "was neutralised when fix c4a40a8 (F12) stopped puts on empty slots; detected again since the C20 generator learnt to make a create fail for lack of memory (the failed create leaves the claimed slot with a reference)",
    "C14-D": "the change is in the dump reader (qb_log_blackbox_print_from_file), which C14's check does not exercise (it calls the encoder/decoder directly); it is detected by C15's check, whose round trip goes through the dump file (seeded/C14-D/also_check)",
    "C04-B": "lost its callback-order effect when fix 0a166c4 (F36) made the incomplete disconnect idempotent (it now only mis-counts statistics); it was detected before that fix",
}
for d in sorted(glob.glob(os.path.join(V, "seeded", "C??-?"))):
    name = os.path.basename(d); p = os.path.join(d, "meta.json")
    m = json.load(open(p))
    r = res.get(name)
    ported = os.path.exists(os.path.join(d, "patch.orig.diff")) and open(os.path.join(d, "patch.orig.diff")).read() != open(os.path.join(d, "patch.diff")).read()
    m["origin"] = "written by a fresh sub-agent that was given only the property text and its own scratch worktree of /repo (nothing from /verif)"
    m["confirmed_by_me"] = {
        "demonstration": DEMOS.get(name, "run by the sub-agent on its worktree (PASS on the unchanged sources, FAIL with the change, see 'ran'); my generic runner tools/run_demo.sh could not build/run this demo as it is"),
        "patch_applied": "patch.diff" + (" (ported by hand to the current tree after fix: commits changed its context; patch.orig.diff is the agent's original)" if ported else ""),
        "command": f"tools/mutant.sh {name[:3]} seeded/{name}/patch.diff quick   (scratch copy of /repo/lib,include,tools + patch -p1, then ./run {name[:3]} quick with VERIF_REPO pointing at the copy)",
        "verdict": (r[3] if r else "not run"),
        "seconds": (int(r[4]) if r and r[4].isdigit() else None),
        "first_violation": (r[5] if r and len(r) > 5 else ""),
    }
    if name in via:
        m["confirmed_by_me"]["also_run_against"] = {"check": via[name][1][11:], "verdict": via[name][3], "first_violation": via[name][5] if len(via[name]) > 5 else ""}
    if name in NOTES: m["confirmed_by_me"]["note"] = NOTES[name]
    json.dump(m, open(p, "w"), indent=1)
    print(name, m["confirmed_by_me"]["verdict"], "ported" if ported else "")
