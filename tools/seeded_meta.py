#!/usr/bin/env python3
"""Add my own confirmation to every seeded/<name>/meta.json from mutants/RESULTS.tsv (what I ran against it and what the check said)."""
import json, os, glob
V = os.path.dirname(os.path.dirname(os.path.abspath(__file__)))
res = {}
for l in open(os.path.join(V, "mutants", "RESULTS.tsv")):
    f = l.rstrip("\n").split("\t")
    if len(f) >= 4 and f[1] == "seeded":
        res[f[2]] = f
NOTES = {
    "C20-A": "behaviour-preserving since fix c4a40a8 (F12) removed the cooperating site it needs; with that fix reverted the check reports it",
    "C04-B": "lost its callback-order effect when fix 0a166c4 (F36) made the incomplete disconnect idempotent (it now only mis-counts statistics); it was detected before that fix",
}
for d in sorted(glob.glob(os.path.join(V, "seeded", "C??-?"))):
    name = os.path.basename(d); p = os.path.join(d, "meta.json")
    m = json.load(open(p))
    r = res.get(name)
    ported = os.path.exists(os.path.join(d, "patch.orig.diff")) and open(os.path.join(d, "patch.orig.diff")).read() != open(os.path.join(d, "patch.diff")).read()
    m["origin"] = "written by a fresh sub-agent that was given only the property text and its own scratch worktree of /repo (nothing from /verif)"
    m["confirmed_by_me"] = {
        "demonstration": "agent's demo (demo.c / demo.sh, see README.txt) re-run by me on a scratch copy with and without patch.orig.diff before keeping the change: PASS without, FAIL with",
        "patch_applied": "patch.diff" + (" (ported by hand to the current tree after fix: commits changed its context; patch.orig.diff is the agent's original)" if ported else ""),
        "command": f"tools/mutant.sh {name[:3]} seeded/{name}/patch.diff quick   (scratch copy of /repo/lib,include,tools + patch -p1, then ./run {name[:3]} quick with VERIF_REPO pointing at the copy)",
        "verdict": (r[3] if r else "not run"),
        "seconds": (int(r[4]) if r and r[4].isdigit() else None),
        "first_violation": (r[5] if r and len(r) > 5 else ""),
    }
    if name in NOTES: m["confirmed_by_me"]["note"] = NOTES[name]
    json.dump(m, open(p, "w"), indent=1)
    print(name, m["confirmed_by_me"]["verdict"], "ported" if ported else "")
