#!/bin/bash
# tools/run_demo.sh <seeded-name>  - re-run the sub-agent's demonstration for a seeded change on a scratch copy of the (built) /repo tree:
# once on the current sources, once with seeded/<name>/patch.diff applied.  Prints "<name> base=<exit> patched=<exit>".  Nothing is left behind.
set -u
N=$1; D=/verif/seeded/$N
T=$(mktemp -d /tmp/demo-XXXXXX)
rsync -a --exclude .git /repo/ $T/
cd $T || exit 2
LIBS="-lpthread -ldl -lrt"
grep -q "lsystemd" lib/libqb.la 2>/dev/null && LIBS="$LIBS -lsystemd"
build() { gcc -g -O1 -Wall -I include -I lib $D/demo.c lib/.libs/libqb.a $LIBS -o $T/demo_bin > $T/cc.log 2>&1; }
runit() { ( cd $T; if [ -f $D/demo.sh ]; then timeout 180 sh $D/demo.sh $T; else timeout 180 ./demo_bin; fi; rc=$?; rm -f $D/demo; exit $rc ) > $T/out.$1 2>&1; echo $?; }
build || { echo "$N compile-failed: $(tail -3 $T/cc.log | tr '\n' ' ')"; rm -rf $T; exit 2; }
b=$(runit base)
if ! patch -p1 -s < $D/patch.diff > $T/patch.log 2>&1; then echo "$N base=$b PATCH-FAILED"; rm -rf $T; exit 3; fi
make -C lib -j16 > $T/make.log 2>&1 || { echo "$N base=$b rebuild-failed"; rm -rf $T; exit 2; }
build || { echo "$N base=$b compile-failed-after-patch"; rm -rf $T; exit 2; }
p=$(runit patched)
echo "$N base=$b patched=$p  [$(grep -h -m1 -i 'FAIL\|VIOLATION' $T/out.patched | cut -c1-120)]"
rm -rf $T /dev/shm/qb-* 2>/dev/null
