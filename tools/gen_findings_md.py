#!/usr/bin/env python3
"""Refresh the findings table in DESIGN.md section 6 from known_findings.json."""
import json, os, re
V = os.path.dirname(os.path.dirname(os.path.abspath(__file__)))
k = json.load(open(os.path.join(V, "known_findings.json")))["findings"]
rows = ["| # | property | fix | what failed before the fix |", "|---|---|---|---|"]
for f in k:
    what = f["record"].split(" ", 3)[3].replace("|", "\\|")
    also = (" (" + ", ".join(f["also_affects"]) + ")") if f.get("also_affects") else ""
    rows.append(f"| {f['id'].split('-')[0]} | {f['property']}{also} | `{f['commit']}` | {what} |")
p = os.path.join(V, "DESIGN.md"); s = open(p).read()
a = s.index("| # | property | fix | what failed before the fix |")
b = s.index("\n\n", a)
s = s[:a] + "\n".join(rows) + s[b:]
s = re.sub(r"lists the \d+\s+genuine defects", f"lists the {len(k)} genuine defects", s)
open(p, "w").write(s)
print(len(k), "findings")
