#!/bin/bash
# tools/run_all_mutants.sh [ID ...]  - run every stored mutant and seeded change against its check (quick tier) on scratch copies of /repo;
# writes mutants/RESULTS.tsv (id, kind, name, verdict, seconds, first violation line).  ONLY=<name> restricts the run to one mutant/seed of the given IDs (its row is replaced).
cd /verif
OUT=mutants/RESULTS.tsv
IDS="$@"; [ -z "$IDS" ] && IDS=$(ls mutants | grep '^C[0-9][0-9]$')
TMP=$(mktemp)
for id in $IDS; do
  for p in mutants/$id/*.patch seeded/$id-*/patch.diff; do
    [ -f "$p" ] || continue
    case $p in seeded/*) kind=seeded; name=$(basename $(dirname $p));; *) kind=mutant; name=$(basename $p .patch);; esac
    [ -n "$ONLY" ] && [ "$name" != "$ONLY" ] && continue
    t0=$(date +%s)
    out=$(KEEP_REPLAYS=/tmp/mutant-replays/$id/$name tools/mutant.sh $id $p quick 2>&1)
    t1=$(date +%s)
    verdict=$(echo "$out" | tail -1 | grep -o 'KILLED\|SURVIVED\|PATCH-FAILED\|HARNESS-ERROR' | head -1)
    [ -z "$verdict" ] && verdict=$(echo "$out" | grep -o 'PATCH-FAILED' | head -1)
    first=$(echo "$out" | grep -m1 VIOLATION | sed 's/.*# //' | cut -c1-160 | tr '\t' ' ')
    printf "%s\t%s\t%s\t%s\t%s\t%s\n" "$id" "$kind" "$name" "${verdict:-ERROR}" "$((t1-t0))" "$first" | tee -a $TMP
    # a seeded change whose code lies in another property's anchors is also run against that property's check (seeded/<name>/also_check)
    if [ "$kind" = seeded ] && [ -f seeded/$name/also_check ]; then
      oid=$(cat seeded/$name/also_check); t0=$(date +%s)
      out=$(tools/mutant.sh $oid $p quick 2>&1); t1=$(date +%s)
      verdict=$(echo "$out" | tail -1 | grep -o 'KILLED\|SURVIVED\|PATCH-FAILED\|HARNESS-ERROR' | head -1)
      first=$(echo "$out" | grep -m1 VIOLATION | sed 's/.*# //' | cut -c1-160 | tr '\t' ' ')
      printf "%s\t%s\t%s\t%s\t%s\t%s\n" "$id" "seeded-via-$oid" "$name" "${verdict:-ERROR}" "$((t1-t0))" "$first" | tee -a $TMP
    fi
  done
done
if [ -n "$ONLY" ]; then grep -v -P "^[^\t]*\t[^\t]*\t$ONLY\t" $OUT > $TMP.2; cat $TMP.2 $TMP | sort > $OUT; rm -f $TMP $TMP.2
elif [ $# -eq 0 ]; then mv $TMP $OUT; else grep -v -E "^($(echo $IDS | tr ' ' '|'))	" $OUT 2>/dev/null > $TMP.2; cat $TMP.2 $TMP | sort > $OUT; rm -f $TMP $TMP.2; fi
