#!/bin/bash
# tools/mkmut.sh <ID> <name> <file-relative-to-repo> <python-expr old>>>new>  : make a mutant patch by exact string replacement (first occurrence, or Nth with N: prefix)
ID=$1; NAME=$2; FILE=$3; shift 3
T=$(mktemp -d /tmp/mk-XXXXXX); mkdir -p $T/a/$(dirname $FILE) $T/b/$(dirname $FILE)
cp /repo/$FILE $T/a/$FILE; cp /repo/$FILE $T/b/$FILE
python3 - "$T/b/$FILE" "$@" <<'PY'
import sys
p=sys.argv[1]; s=open(p).read()
for spec in sys.argv[2:]:
    n=1
    if spec[:2].rstrip(':').isdigit() and spec[1]==':': n=int(spec[0]); spec=spec[2:]
    old,new=spec.split('>>>',1)
    old=old.encode().decode('unicode_escape'); new=new.encode().decode('unicode_escape')
    idx=-1
    for _ in range(n):
        idx=s.find(old, idx+1)
        if idx<0: sys.exit("pattern not found: "+old)
    s=s[:idx]+new+s[idx+len(old):]
open(p,'w').write(s)
PY
[ $? = 0 ] || { rm -rf $T; exit 1; }
mkdir -p /verif/mutants/$ID
(cd $T && diff -u a/$FILE b/$FILE > /verif/mutants/$ID/$NAME.patch)
rm -rf $T; echo "wrote mutants/$ID/$NAME.patch ($(grep -c '^[-+][^-+]' /verif/mutants/$ID/$NAME.patch) changed lines)"
