"""Per-property check configuration: stages, budgets, claimed level (read by ./run and gen_manifest.py)."""

COMMON_ASSUMPTIONS = [
    "exploration only: no case that was not generated has been judged; absence of violations is not established",
    "libqb is rebuilt from /repo's working tree with clang 14 -O1, ASan+UBSan (alignment check off), asserts on, Linux/epoll configuration from include/config.h",
    "each case is a pure function of (VERIF_SEED, case index) through the byte-string decoder of the harness",
]


def rnd(name, bin_, quick, thorough, **kw):
    d = dict(name=name, bin=bin_, kind="random", cases=dict(quick=quick, thorough=thorough))
    d.update(kw)
    return d


def fz(bin_, thorough_s, **kw):
    """coverage-guided stage (libFuzzer, -fork=16) on the same verif_case(); thorough tier only"""
    d = dict(name="libfuzzer", bin=bin_, kind="fuzz", variant="fuzz", seconds=dict(quick=0, thorough=thorough_s), tiers=("thorough",))
    d.update(kw)
    return d


CHECKS = {
    "C07": dict(
        title="ring buffer capacity contract + sequential FIFO",
        level="exploration",
        design_ref="DESIGN.md section 4, C07",
        technique="model-based property testing: generated op lists vs. a deque reference model",
        level_text="seeded random operation sequences over all sizes/flag sets compared step by step with a deque model; "
                   "finds violations reachable by bounded op lists, proves nothing about unexplored ones",
        level_note="trusted: the harness model (deque + capacity arithmetic), ASan/UBSan, the decoder's distribution",
        stages=[rnd("seq", "c07", 500000, 10000000, essential=["wrapped", "straddle", "exact_fit", "refused", "marker_payload", "enobufs", "empty_read", "full_S_chunk"]),
                fz("c07", 240)],
        assumptions=["single-threaded use (concurrent use is C01's subject)"],
    ),
    "C20": dict(
        title="handle database",
        level="exploration",
        design_ref="DESIGN.md section 4, C20",
        technique="model-based property testing: generated handle op lists vs. a slot/generation/refcount model",
        level_text="seeded random op lists over three databases (live, dead, forged and reused handles) compared after every op with a slot/generation/refcount model, "
                   "including 'a refused op changed nothing' checked on every other live object",
        level_note="trusted: the model; random() is interposed so check words never repeat within a case (the 2^-31 collision inherent in the handle design is out of scope)",
        stages=[rnd("ops", "c20", 1500000, 30000000, essential=["slot_reused", "stale_after_reuse", "destroy_with_refs", "bogus_handle", "iterate", "over_put_free", "second_destroy", "create_without_memory"]),
                fz("c20", 240)],
        assumptions=["single-threaded use", "no-check handles (qb_hdb_nocheck_convert) are not generated: the statement does not cover them"],
    ),
    "C17": dict(
        title="maps behave like dictionaries; notifiers fire once",
        level="exploration",
        design_ref="DESIGN.md section 4, C17",
        technique="model-based property testing: generated map op lists vs. std::map + a model of the registered notifiers",
        level_text="seeded random op lists on each of the three implementations compared after every op with a std::map dictionary and a notifier model "
                   "(multiset of callbacks with event, key, old and new value, user data; FREE exactly once per value that leaves, FREE last)",
        level_note="trusted: the dictionary/notifier model (attachment rules read from the three *_notify_add functions and qbmap.h); keys handed to the map are heap copies "
                   "freed in the FREE notifier, so ASan sees any later use by the library",
        stages=[rnd("ops", "c17", 600000, 12000000, essential=["hashtable", "skiplist", "trie", "rm_absent_prefix_related", "abandoned_traversal", "prefix_iteration", "notifier_registered", "map_emptied"]),
                fz("c17", 240)],
        assumptions=["single-threaded use", "the empty string is never used as a key (not documented as valid)", "values are non-NULL (NULL means absent in this API)",
                     "trie order is checked as ascending in signed-char order, skiplist in strcmp order",
                     "hashtable notifiers subscribe only to DELETED/REPLACED/FREE (qbmap.h: hashtable does not support insert notifications)",
                     "notify_del is only called for registrations that exist (exact key) or near misses on user data"],
    ),
    "C18": dict(
        title="map iterators stay valid under mutation",
        level="exploration",
        design_ref="DESIGN.md section 4, C18",
        technique="model-based property testing with ASan: generated interleavings of iterator and mutation ops vs. per-iterator obligations + dictionary model",
        level_text="seeded random interleavings of up to 4 open iterators with put/rm/get, removals aimed at the iterators' positions and neighbours; ASan for freed-memory access, "
                   "per-iterator obligations (every key present throughout is returned, exactly once without insertions; nothing never-present), dictionary agreement while iterators are open, "
                   "full C17 comparison once they are gone",
        level_note="trusted: the model; notifications about values whose deletion may be deferred are left out of the accounting if the notifier set changes meanwhile (the statement does not fix which set applies)",
        stages=[rnd("iters", "c18", 600000, 12000000, essential=["hashtable", "skiplist", "trie", "abandoned_iterator", "iters_freed_compare", "parked_removed", "aimed_rm", "map_emptied"]),
                fz("c18", 240)],
        assumptions=["single-threaded use", "a map is never destroyed while iterators are open on it",
                     "a trie prefix iterator is held to its prefix only while nothing was inserted during the iteration"],
    ),
    "C11": dict(
        title="overwrite ring / blackbox keeps the newest records",
        level="exploration",
        design_ref="DESIGN.md section 4, C11",
        technique="model-based property testing: generated write/read/snapshot sequences vs. the list of all writes with a retention bound",
        level_text="seeded random sequences of writes (tiny to exactly S), destructive reads, peek+reclaim and non-destructive file snapshots on overwrite rings of all sizes; every chunk that "
                   "comes out must be a written one, in order, gap-free up to the newest, and never fewer than the newest chunks that fit S",
        level_note="trusted: the model (set of possible consumed boundaries, so byte-identical chunks cannot cause a wrong guess), ASan/UBSan",
        stages=[rnd("ring", "c11", 250000, 5000000, essential=["wrapped_twice", "multi_reclaim", "snapshot_after_wrap", "semaphore", "near_capacity_chunk", "read_after_overwrite", "full_S_chunk", "peek", "long_run_of_tiny_chunks"]),
                rnd("blackbox", "c11b", 6000, 300000, essential=["wrapped_and_dropped", "dump_mid_sequence", "too_long_record", "many_records"]),
                fz("c11", 240)],
        assumptions=["single writer/reader thread", "snapshots need the private /dev/shm namespace (qb_rb_create_from_file uses a fixed name)"],
    ),
    "C19": dict(
        title="growable array: stable, disjoint, zero-initialised elements; concurrent index/grow",
        level="exploration",
        design_ref="DESIGN.md section 4, C19",
        technique="model-based property testing (sequential) + randomised schedule exploration of 2-3 threads at load/store granularity with ASan (concurrent)",
        level_text="sequential: generated index/grow sequences over the full int32 range vs. an index->(address, contents) model with an interval map for overlap; concurrent: the same guarantees "
                   "for 2-3 threads whose interleaving is owned by a cooperative scheduler with a yield point at every compiler-instrumented access in array.c and at the grow lock",
        level_note="trusted: the model; concurrent part explores sequentially-consistent interleavings only (no hardware reordering), schedules are sampled, not enumerated",
        stages=[rnd("seq", "c19", 500000, 10000000, essential=["table_realloc_then_recheck", "autogrow", "range_error", "bin_boundary", "top_of_range", "negative_index", "grow_rejected", "new_bin_cb"]),
                rnd("conc", "c19c", 60000, 1500000, variant="sched", essential=["switch_inside_index", "switch_inside_grow", "table_realloc", "three_threads", "autogrow"]),
                fz("c19", 240)],
        assumptions=["concurrent stage: interleavings are sequentially consistent at the granularity of individual accesses; weak-memory effects are invisible"],
    ),
    "C01": dict(
        title="ring buffer: one writer + one reader, all interleavings",
        level="exploration",
        design_ref="DESIGN.md section 4, C01",
        technique="schedule exploration: randomised + small-scope exhaustive enumeration of writer/reader interleavings at load/store granularity, history-prefix oracle",
        level_text="writer and reader scripts run under a cooperative scheduler that owns every interleaving point (each compiler-instrumented access to the shared header/data and each "
                   "semaphore op): seeded random schedules over generated scripts, plus every schedule with at most 2 preemptions for 9 fixed 2+2-op scripts (one of them started in a nearly full, wrapped ring) in both notification modes; "
                   "oracle: reader's chunks are always a byte-identical prefix of the successful writes, refused writes have no effect, drain returns exactly the rest",
        level_note="trusted: the history oracle and the schedule engine; sequentially-consistent interleavings only; memcpy of payload inside libqb is one step (word-wise tearing is covered by "
                   "the alloc + fill + commit and peek + compare + reclaim ops whose copies yield per word)",
        stages=[rnd("sched", "c01", 20000, 600000, variant="sched", enum_note="all schedules with <= 2 preemptions (quick: first 120 yield points, thorough: 260) of 8 scripts x 2 modes",
                    essential=["switch_inside_write", "switch_inside_read", "wrapped", "refused_write", "empty_read", "semaphore", "no_semaphore", "marker_payload", "two_step_write", "peek_reclaim", "enumerated"])],
        assumptions=["interleavings are sequentially consistent at the granularity of individual accesses; hardware store-buffer effects and the RELEASE/ACQUIRE vs RELAXED distinction on x86 are invisible",
                     "one writer party and one reader party; all timeouts are 0 (nothing blocks)"],
    ),
    "C14": dict(
        title="blackbox serialisation equals printf",
        level="exploration",
        design_ref="DESIGN.md section 4, C14",
        technique="differential property testing against vsnprintf with grammar-generated formats and genuine variadic calls; ASan on exact-size buffers",
        level_text="formats generated from a grammar over every supported conversion/flag/width/precision/length modifier with matching extreme argument values are encoded into and decoded from "
                   "heap buffers of exactly the stated sizes; complete records must decode to vsnprintf's text, the encoder must report exactly the size the record needs, and neither side may write out of bounds",
        level_note="trusted: glibc vsnprintf as the reference, the harness's size model of a record (format + NUL + argument bytes), ASan; integer-class arguments travel as long through the variadic call (x86-64 SysV)",
        stages=[rnd("diff", "c14", 1500000, 30000000, essential=["mixed_classes", "precision_or_star", "encoder_limit_hit", "decoder_limit_hit", "exact_fit_encoder", "null_string", "percent_in_string", "long_literal", "special_double", "length_modifier", "roundtrip_compared", "extended_marker"]),
                fz("c14", 240)],
        assumptions=["C locale", "NULL passed to %s is rendered as (null) by the reference", "h/hh/L modifiers and wide characters are outside the property's list and are not generated",
                     "a record is only decoded when the encoder reported it complete (return < limit), as the blackbox does"],
    ),
    "C13": dict(
        title="log line formatting bounded and per spec",
        level="exploration",
        design_ref="DESIGN.md section 4, C13",
        technique="differential property testing: grammar-generated target formats/messages vs. a naive re-implementation of the directive language and vsnprintf; ASan on exact-size line buffers",
        level_text="one forked process per case configures a custom target from generated settings (every accepted and rejected line length around the edges, ellipsis, extended, format strings from a grammar "
                   "incl. unknown directives, widths up to 5000, formats ending inside a directive, formats of several thousand characters) and logs 1-3 messages through the printf path; the logger compares the "
                   "message with vsnprintf's text and the line, formatted into a heap buffer of exactly max_line_length bytes, with a naive re-implementation",
        level_note="trusted: the re-implementation of the documented directives in the harness, glibc vsnprintf, ASan; TZ=UTC",
        stages=[rnd("fmt", "c13", 60000, 2000000, essential=["near_limit", "beyond_limit", "empty_rendering", "width_exceeds_room", "ellipsis", "tiny_limit", "big_limit", "format_ends_in_directive",
                                                                "unknown_directive", "long_format", "empty_message", "trailing_newline", "extended_marker", "rejected_limit", "right_align", "static_directive", "two_targets", "priority_beyond_trace"])],
        assumptions=["format strings are ASCII", "a line that fills the buffer exactly may or may not carry the ellipsis (the implementation cannot tell it from a cut one)",
                     "the tag stringifier returns a non-NULL string"],
    ),
    "C15": dict(
        title="blackbox dump files: round trip and robustness",
        level="exploration",
        design_ref="DESIGN.md section 4, C15",
        technique="round-trip property testing (log -> dump -> print -> parse) + structure-aware file corruption fuzzing with ASan/UBSan, guard pages around ring mappings, /dev/shm and fd residue oracles",
        level_text="generated record sequences are logged into the blackbox under a virtual realtime clock, dumped at generated moments, printed and compared field by field (priority, function, line, tags, "
                   "timestamp to the millisecond, message); the last dump is then damaged in 8-40 generated ways per case (truncations, each header word incl. aliasing pointer values, chunk headers, every "
                   "record field at boundary values with a valid header hash, random byte runs, non-dumps, old-format headers) and every variant is printed: must return, no sanitizer report, no residue",
        level_note="trusted: the printout parser in the harness; mmap is interposed so that every ring mapping is surrounded by 16 MiB PROT_NONE guards (ASan does not police mmap'd memory)",
        stages=[rnd("file", "c15", 12000, 600000, essential=["wrapped_and_dropped", "dump_mid_sequence", "too_long_record", "truncated_file", "header_word_damaged", "chunk_header_damaged",
                                                               "record_field_damaged", "random_bytes", "not_a_dump", "old_format_header", "hash_valid_but_damaged", "print_partial_then_error", "two_fields_damaged", "printed_text_fills_reader_buffer"])],
        assumptions=["default line length (the reader's buffers are sized by QB_LOG_MAX_LEN)", "function name and tags are functions of the call site (file, line), as the dynamic call-site registry requires",
                     "records whose serialised form is within a few bytes of the 512-byte limit are not generated (stored vs. replaced by the notice is not pinned down by the statement)"],
    ),
    "C12": dict(
        title="log routing: exactly the enabled targets whose filters select the call site",
        level="exploration",
        design_ref="DESIGN.md section 4, C12",
        technique="model-based + metamorphic property testing: generated filter/target/log histories vs. a declarative model, and the same history with all call sites executed first",
        level_text="generated histories over up to 3 custom targets (open/close/enable/disable, filter ADD/REMOVE/CLEAR_ALL of all six kinds incl. comma lists, '*', regexes, invalid regexes, "
                   "priority windows, tag SET/CLEAR/CLEAR_ALL, log calls from 36 overlapping call sites) are checked call by call against a declarative model of the stored filters (exactly-once "
                   "delivery per selected enabled target, message text, reported tag), and every history is run a second time with all call sites executed before any configuration: both runs must deliver identically",
        level_note="trusted: the declarative model (matching re-implemented in the harness; regexes through libc regcomp with the same flags); the twin-run oracle needs no model",
        stages=[rnd("route", "c12", 40000, 1500000, essential=["site_first_seen_between_filter_and_enable", "remove_with_overlap_then_log", "regex_filter", "comma_list", "priority_window", "tag_filter",
                                                                  "target_closed_and_slot_reused", "clear_all", "delivered", "suppressed", "invalid_regex", "explicit_tag", "three_targets", "clear_all_with_narrower_arguments"])],
        assumptions=["the function name and the explicit tag of a call are functions of (file, line): the dynamic call-site registry identifies a site by (file, line, priority, format)",
                     "custom targets only; syslog/stderr/file/blackbox targets route through the same code"],
    ),
    "C16": dict(
        timing_dependent=True,
        title="threaded logging: every queued message once, in order, before fini; control ops safe",
        level="exploration",
        design_ref="DESIGN.md section 4, C16",
        technique="stateful property testing with real threads: generated orders of init/threaded/control/start/bursts/fini/re-init with perturbed timing, sequence-number oracle + loss accounting + ASan",
        level_text="generated session scripts (any order of init, open, set-threaded, control ops, thread start, bursts up to beyond the 512000-byte backlog with the idle logging thread frozen, "
                   "consumer delays, fini, re-init) run with real threads; target A must receive exactly the posted sequence minus the reported losses, in order, by the time qb_log_fini returns; "
                   "target B takes the disruptive control ops and must at least see an increasing duplicate-free subsequence; hangs are violations",
        level_note="trusted: the sequence oracle; interleavings inside log_thread.c are perturbed (sleeps, freeze signal), not owned: a race needing a specific interleaving may be missed by a given seed",
        stages=[rnd("thread", "c16", 4000, 200000, essential=["control_while_worker_busy", "backlog_limit_hit", "undocumented_order", "reinit_after_fini", "control_before_start", "log_before_start",
                                                                "never_started", "two_threaded_targets", "big_burst", "fini_with_backlog", "file_target"])],
        assumptions=["real pthreads: schedules are sampled by timing perturbation, not enumerated", "a failure must reproduce in at least 1 of 3 re-runs to be reported",
                     "messages to a target that is disabled or closed while they are queued may be discarded (only target A, which stays enabled, is held to exactly-once delivery)"],
    ),
    "C08": dict(
        title="event loop runs every job, timer, fd and signal callback exactly as registered",
        level="exploration",
        design_ref="DESIGN.md section 4, C08",
        technique="stateful model-based property testing: generated programs for the loop (actions consumed by every callback invocation) vs. a registration model, virtual time",
        level_text="a case is a program for the loop: initial registrations plus an action list consumed by every callback invocation and by the harness between runs (add job/timer/fd/signal, "
                   "delete own/other/fired/stale handles, poll_mod, write/drain pipes, close + reopen an fd number + re-add, raise, stop); real pipes and epoll, virtual clock; the model is checked inside every "
                   "callback (exactly once, never after a successful delete, job order per priority, readiness) and at quiescence (everything registered and due was dispatched)",
        level_note="trusted: the registration model; clock_gettime/epoll_wait/random are interposed (virtual time, unique check words: the 2^-31 handle collision is out of scope)",
        stages=[rnd("program", "c08", 100000, 3000000, essential=["delete_of_queued_item", "stale_handle_after_slot_reuse", "callback_deletes_itself", "fd_number_reused", "signal_delivered",
                                                                    "signal_deleted_while_queued", "fd_self_remove_by_return", "job_deleted_while_waiting", "timer_deleted_pending", "stop_from_callback", "poll_mod", "double_add_refused", "signal_mod", "signal_mod_priority_while_queued", "signal_mod_number", "signal_moved_while_queued_then_deleted"])],
        assumptions=["handles passed to delete calls are values the API issued earlier (live, fired, deleted, slot reused); signal handles (raw pointers) are deleted at most once",
                     "a descriptor is closed only after qb_loop_poll_del succeeded for it; signals are raised from the loop thread and only while a handler for them is registered",
                     "signal handlers are only added while no delivery of that signal is under way"],
    ),
    "C09": dict(
        title="timers never fire early; the loop never sleeps past the next expiry",
        level="exploration",
        design_ref="DESIGN.md section 4, C09",
        technique="stateful property testing under a virtual clock: generated timer histories over the full 64-bit duration range, invariants over every requested poll timeout and every dispatch",
        level_text="timer add/delete/query/job histories (from outside the loop and from callbacks) with durations from 0 to 2^64-1 ns run under an interposed clock (optional tick per read) and interposed "
                   "epoll_wait (sleeping advances virtual time, possibly less than asked); checked: no dispatch before add+d, expiry order per priority, every poll timeout requested while a timer is pending is finite, "
                   "non-negative and ends no later than the earliest expiry + slack (1 ms + ticks, or 50 ms after jobs), bounded lateness, queries non-zero exactly while pending",
        level_note="trusted: the timer model; durations beyond one hour are judged by the requested timeouts only (the virtual run does not reach their expiry)",
        stages=[rnd("timers", "c09", 50000, 3000000, essential=["three_pending_delete_nonhead", "duration_beyond_31bit_ms", "duration_beyond_32bit_ms", "duration_near_2_63", "duration_near_2_64",
                                                                   "zero_duration", "early_wakeup", "clock_tick", "job_throttle_seen", "delete_from_callback", "query_pending", "query_after_fire", "many_pending", "heap_profile", "self_removing_descriptor"])],
        assumptions=["the monotonic clock never goes backwards", "a timer whose expiry equals the current time to the nanosecond may be dispatched on the next iteration (strict comparison)"],
    ),
    "C10": dict(
        title="event loop priorities are weak: no level is ever starved",
        level="exploration",
        design_ref="DESIGN.md section 4, C10",
        technique="property testing of generated workloads under virtual time: trace invariants (3-iteration window per busy level, nested service)",
        level_text="generated workloads (0-10 self-re-adding jobs / always-readable descriptors / zero-delay re-arming timers per priority, sources joining and leaving from inside callbacks, 30-300 "
                   "iterations) run under virtual time with one interposed epoll_wait per iteration; over the dispatch trace: every level with a continuously ready source dispatches in every window of "
                   "three iterations, and whenever a lower level dispatches every busy higher level dispatches in the same iteration",
        level_note="trusted: the workload model (which sources are ready when); at most 11 descriptors are ready at once (epoll_wait harvests 12 events per iteration)",
        stages=[rnd("work", "c10", 60000, 2000000, essential=["all_levels_busy_9_iterations", "higher_level_saturated", "jobs", "descriptors", "timers", "source_joined_midrun", "source_left_midrun",
                                                                "nine_or_more_on_one_level", "job_only_level", "descriptor_moved_and_removed", "descriptor_moved_and_kept"])],
        assumptions=["no exact dispatch ratios are checked, only the bounds the statement gives"],
    ),
    "C02": dict(
        title="IPC: requests, responses and events exactly once, in order, intact",
        level="exploration",
        design_ref="DESIGN.md section 4, C02",
        technique="stateful model-based property testing: in-process client(s)+server stepped by the case, three FIFO reference queues per connection, readability invariant at quiescence",
        level_text="client(s) and server of a real service run in one thread (the server's poll handlers are the harness's dispatcher, a 'server step' dispatches one ready descriptor chosen by the case; "
                   "the client uses zero-timeout calls, qb_ipcc_sendv_recv included); generated op lists over both transports with sizes around the negotiated maximum, flow control / rate limit changes, fc_enable_max, shrunk "
                   "notification-socket buffers and event bursts are compared with FIFO queues per connection and direction; refused sends must have no effect; at server quiescence a queued event implies a readable descriptor",
        level_note="trusted: the queue model; client and server share one thread, so races inside a single ring operation are C01's subject, and blocking variants of the calls are not exercised here",
        stages=[rnd("msgs", "c02", 40000, 1500000, essential=["refused_then_retried", "two_in_flight", "deferred_notification", "size_at_limit", "size_beyond_limit", "fc_toggled_midburst", "shm", "socket",
                                                                "event_readable_checked", "response_from_callback", "response_from_outside", "three_clients", "ring_full_refusal", "sendv",
                                                                "client_send_blocked_then_rescued", "receive_buffer_too_small", "events_drained_under_flow_control",
                                                                "sendv_recv", "sendv_recv_with_response_waiting", "server_sendv", "iovec_with_empty_segment"])],
        assumptions=["at most 48 requests of one client are outstanding; the state in which the client blocks on a full client-to-server notification socket is reached by shrinking that socket's buffers, and a helper thread then runs server steps (only while the main thread is stuck inside the send), lifting flow control after 20 ms",
                     "readability of the event descriptor is demanded only when the server's dispatcher has nothing left to do (deferred notifications are re-sent from the server's loop)"],
    ),
    "C04": dict(
        title="IPC server callbacks: accept, created, msg*, closed+, destroyed; nothing touches freed state",
        level="exploration",
        design_ref="DESIGN.md section 4, C04",
        technique="stateful property testing: generated lifecycle histories against a per-connection automaton (accept, created, msg*, closed+, destroyed) under ASan/UBSan, plus a delivery stamp check",
        level_text="client(s) and server of a real service run in one thread (see C02); generated histories of connects (completed or abandoned half way), client disconnects and abrupt socket "
                   "shutdowns, requests, server disconnects from outside and from inside every callback, application references held across later ops, closed returning non-zero up to 3 times "
                   "(re-run through job_add when the case says), refusals, rate-limit changes, list walks, sends on closing connections and service destruction at any point, on both transports; "
                   "a per-connection automaton checks order, exactly-once destroyed and reference accounting, ASan catches use of freed state, and every message a client receives must carry its own stamp",
        level_note="trusted: the automaton; a connection the application disconnects from inside connection_created is allowed to skip connection_closed (the library treats it as incomplete and the statement "
                   "only requires that closed is never invoked without created)",
        stages=[rnd("life", "c04", 60000, 1500000, essential=["app_ref_outlives_peer", "closed_retry", "destroy_with_live_connections", "disconnect_inside_msg_process", "disconnect_inside_created",
                                                                "disconnect_inside_closed", "accept_refused", "abrupt_client_close", "list_walk", "rate_limit_change", "connect_abandoned",
                                                                "destroy_with_retry_job_pending", "shm", "socket", "send_inside_callback", "send_on_closing_connection",
                                                                "list_walk_or_rate_limit_inside_callback"])],
        assumptions=["callbacks only disconnect their own connection (not others) and never destroy the service from inside a callback",
                     "the 100 ms retry sleeps of the socket transport's connect-on-first-send are skipped (usleep interposed)"],
    ),
    "C06": dict(
        title="IPC: bytes from a peer never corrupt the other side, whatever they say",
        level="exploration",
        design_ref="DESIGN.md section 4, C06",
        technique="structure-aware fuzzing / property testing of hostile peers against an in-process server: handshake byte mutations delivered in pieces, raw request messages with lying length fields; oracle = ASan/UBSan + recv() destination pre-check + msg_process argument bounds + control-client liveness + residue",
        level_text="a real service runs in-process (see C02) with a well-behaved control client; raw stream sockets deliver prefixes of a valid handshake, requests with id/size/max_msg_size mutated, "
                   "garbage and oversized tails in generated pieces with server steps in between, then close, half-close or stay silent; an accepted victim client's request channel is driven raw "
                   "(datagrams / ring chunks of real length 0..4x the negotiated maximum whose header claims an equal, smaller, larger, zero or negative length); every msg_process call is checked against "
                   "the bytes really sent under the stamped id (size <= sent, size <= maximum, bytes equal), every recv() destination is pre-checked against ASan's shadow, the control client must be "
                   "answered after the hostile traffic, and descriptors, loop registrations and /dev/shm entries must return to the baseline when the peers are gone",
        level_note="trusted: the bookkeeping of what was sent; heap residue is not measured (only descriptors, loop registrations and shm entries); a raw peer whose handshake asks for more than 1 MiB "
                   "is refused by the harness's accept callback (the server would otherwise legitimately allocate what it was asked for)",
        stages=[rnd("hostile", "c06", 40000, 1200000, essential=["handshake_prefix_then_close", "handshake_split_delivery", "handshake_field_mutated", "handshake_garbage", "handshake_oversized",
                                                                  "handshake_silent_peer", "hdr_size_larger_than_sent", "hdr_size_smaller_than_sent", "hdr_size_zero_or_negative", "sent_beyond_maximum",
                                                                  "shorter_than_header", "shm", "socket", "raw_peer_accepted", "victim_dropped_by_server", "honest_message", "accepted_client_negotiated_tiny_maximum"])],
        assumptions=["the domain is message contents and handshake bytes; corrupting the shared ring's control words or the notification-byte count is outside the statement's quantifier",
                     "a clean rejection (dropping the offending connection) is a correct outcome"],
    ),
    "C03": dict(
        timing_dependent=True,
        title="IPC: death of the peer at any point is detected and fully cleaned up",
        level="fault_enumeration",
        design_ref="DESIGN.md section 4, C03",
        technique="crash-point enumeration + property testing: the dying peer is a forked process running the real client/server and stopping at the boundary of its K-th libc call (link-time interposition), every K enumerated for fixed scripts and drawn at random for generated ones; oracle = callback automaton, residue (descriptors, loop registrations, /dev/shm), control-client liveness, deadlines of client calls",
        level_text="part A: a forked real client (connect, answered requests, requests left queued, events, disconnect or plain exit) stops just before its K-th libc call, optionally after a prefix of a send; the "
                   "server (in-process, stepped by the case) must run destroyed exactly once for it (closed first iff created), keep serving the control client, and be back at the baseline of descriptors, loop "
                   "registrations and /dev/shm entries; every K of 4 fixed scripts x 2 transports is enumerated, as are the three server callbacks during which the client can be killed and every proper prefix (1..23 bytes) of the handshake request; generated scripts draw K. part B: a forked real server stops before its K-th libc call (or is SIGKILLed between "
                   "two client calls); the client's timed calls must return by their deadline (+3 s slack), infinite waits must end with a disconnect error within 2 x QB_IPC_MAX_WAIT_MS + 3 s of the death, later calls must "
                   "fail, and after qb_ipcc_disconnect no file is left below /dev/shm; every K of 3 fixed client scripts x 2 transports is enumerated, plus 12 prefix lengths of the handshake response",
        level_note="crash points are libc-call boundaries of the dying process (27 interposed functions) plus SIGKILL between client calls; two real processes, so the interleaving of survivor and victim is the kernel's "
                   "(failures are confirmed by repetition); wall-clock bounds carry a 3 s slack; the empty per-connection directory that the shm client leaves after a server death is not counted (the statement speaks of files)",
        stages=[rnd("death", "c03", 6000, 150000, essential=["A_died_during_handshake", "A_died_connected_idle", "A_died_with_requests_queued", "A_died_mid_request", "A_died_in_disconnect", "A_completed", "A_partial_send", "A_killed_inside_server_callback", "A_closed_asked_for_rerun",
                                                               "B_died_before_ready", "B_died_during_handshake", "B_died_while_client_waited_forever", "B_died_while_client_waited_finite", "B_killed_between_calls",
                                                               "B_survived", "B_later_call_checked", "B_shm_cleanup_checked", "B_listener_set_up_by_living_parent", "shm", "socket",
                                                               "A_died_with_requests_queued_under_flow_control", "A_connection_on_descriptor_0"])],
        assumptions=["the dead server has been reaped before the client's disconnect (the client's kill(pid, 0) probe sees a zombie as alive)",
                     "a dying process stops between libc calls, or after a prefix of a send; it does not corrupt shared memory on its way out"],
    ),
    "C05": dict(
        timing_dependent=True,
        title="IPC admission: only accepted peers get channels; their files stay private",
        level="exploration",
        design_ref="DESIGN.md section 4, C05",
        technique="property testing with forked clients under generated credentials and generated accept decisions; oracle = accept arguments vs. the clients' effective ids, connect result vs. the refusal code, and a stat() scan of /dev/shm at every libc-call boundary of the server (link-time interposed observer)",
        level_text="the server runs in-process as root and is stepped by the case; 1-4 forked clients switch to generated uid/gid (7 x 5 values, in a sixth of the cases effective != real) and call the real "
                   "qb_ipcc_connect concurrently; the accept callback refuses with one of 10 error codes or accepts with the defaults or a generated owner, group and mode (qb_ipcs_connection_auth_set); "
                   "checked: uid/gid handed to accept = the client's effective ids; a refused client fails with exactly the code, leaves nothing in /dev/shm and never reaches msg_process; every entry of an accepted "
                   "client below /dev/shm is, before every libc call the server makes, not more permissive than the chosen mode (directories: closed to others), and owned by the authorised user and group once connected",
        level_note="needs root (otherwise the run is reported inconclusive); modes without owner read/write are not generated (files are created 0600 first: the statement's default); transient ownership by the creating "
                   "server before chown is not flagged, only the mode is checked at every moment; ownership is checked once the client reports it is connected",
        stages=[rnd("admit", "c05", 12000, 500000, essential=["refused", "accepted_default_auth", "accepted_custom_owner", "accepted_custom_mode", "non_root_client", "effective_differs_from_real", "concurrent_mix",
                                                                 "refused_and_accepted_together", "moments_observed_100", "shm", "socket", "client_talked", "auth_set_leaves_an_id_alone"])],
        assumptions=["the sandbox lets root switch to arbitrary numeric ids (no user namespaces restrictions)", "clients and server share a pid namespace (per-connection directory names carry the client pid)"],
    ),
}
