"""Per-property check configuration: stages, budgets, claimed level (read by ./run and gen_manifest.py)."""

COMMON_ASSUMPTIONS = [
    "exploration only: no case that was not generated has been judged; absence of violations is not established",
    "libqb is rebuilt from /repo's working tree with clang 14 -O1, ASan+UBSan (alignment check off), asserts on, Linux/epoll configuration from include/config.h",
    "each case is a pure function of (VERIF_SEED, case index) through the byte-string decoder of the harness",
]


def rnd(name, bin_, quick, thorough, **kw):
    d = dict(name=name, bin=bin_, kind="random", cases=dict(quick=quick, thorough=thorough))
    d.update(kw)
    return d


CHECKS = {
    "C07": dict(
        title="ring buffer capacity contract + sequential FIFO",
        level="exploration",
        design_ref="DESIGN.md section 4, C07",
        technique="model-based property testing: generated op lists vs. a deque reference model",
        level_text="seeded random operation sequences over all sizes/flag sets compared step by step with a deque model; "
                   "finds violations reachable by bounded op lists, proves nothing about unexplored ones",
        level_note="trusted: the harness model (deque + capacity arithmetic), ASan/UBSan, the decoder's distribution",
        stages=[rnd("seq", "c07", 300000, 6000000, essential=["wrapped", "straddle", "exact_fit", "refused", "marker_payload", "enobufs", "empty_read", "full_S_chunk"])],
        assumptions=["single-threaded use (concurrent use is C01's subject)"],
    ),
}
