"""Per-property check configuration: stages, budgets, claimed level (read by ./run and gen_manifest.py)."""

COMMON_ASSUMPTIONS = [
    "exploration only: no case that was not generated has been judged; absence of violations is not established",
    "libqb is rebuilt from /repo's working tree with clang 14 -O1, ASan+UBSan (alignment check off), asserts on, Linux/epoll configuration from include/config.h",
    "each case is a pure function of (VERIF_SEED, case index) through the byte-string decoder of the harness",
]


def rnd(name, bin_, quick, thorough, **kw):
    d = dict(name=name, bin=bin_, kind="random", cases=dict(quick=quick, thorough=thorough))
    d.update(kw)
    return d


CHECKS = {
    "C07": dict(
        title="ring buffer capacity contract + sequential FIFO",
        level="exploration",
        design_ref="DESIGN.md section 4, C07",
        technique="model-based property testing: generated op lists vs. a deque reference model",
        level_text="seeded random operation sequences over all sizes/flag sets compared step by step with a deque model; "
                   "finds violations reachable by bounded op lists, proves nothing about unexplored ones",
        level_note="trusted: the harness model (deque + capacity arithmetic), ASan/UBSan, the decoder's distribution",
        stages=[rnd("seq", "c07", 500000, 10000000, essential=["wrapped", "straddle", "exact_fit", "refused", "marker_payload", "enobufs", "empty_read", "full_S_chunk"])],
        assumptions=["single-threaded use (concurrent use is C01's subject)"],
    ),
    "C20": dict(
        title="handle database",
        level="exploration",
        design_ref="DESIGN.md section 4, C20",
        technique="model-based property testing: generated handle op lists vs. a slot/generation/refcount model",
        level_text="seeded random op lists over three databases (live, dead, forged and reused handles) compared after every op with a slot/generation/refcount model, "
                   "including 'a refused op changed nothing' checked on every other live object",
        level_note="trusted: the model; random() is interposed so check words never repeat within a case (the 2^-31 collision inherent in the handle design is out of scope)",
        stages=[rnd("ops", "c20", 1500000, 30000000, essential=["slot_reused", "stale_after_reuse", "destroy_with_refs", "bogus_handle", "iterate", "over_put_free", "second_destroy"])],
        assumptions=["single-threaded use", "no-check handles (qb_hdb_nocheck_convert) are not generated: the statement does not cover them"],
    ),
}
