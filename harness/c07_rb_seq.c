/*
 * C07 - ring buffer capacity contract and loss-free sequential FIFO.
 *
 * Case = requested size S, flag set, and an operation list over
 * write / alloc+fill+commit / read (big or too-small buffer) / peek / reclaim /
 * space queries.  Oracle = a deque of (len, bytes) run in lock step.
 */
#include "os_base.h"
#include <qb/qbrb.h>
#include "ringbuffer_int.h"
#include "rb_common.h"

const char *verif_property = "C07";
const char *verif_class_names[] = { "wrapped", "straddle", "exact_fit", "refused", "marker_payload",
	"enobufs", "semaphore", "must_accept_checked", "empty_read", "odd_len", "full_S_chunk", "peek_reclaim", NULL };
enum { K_WRAP, K_STRADDLE, K_EXACT, K_REFUSED, K_MARKER, K_ENOBUFS, K_SEM, K_MUST, K_EMPTYRD, K_ODD, K_FULL, K_PEEK };
const char *verif_rule =
	"case = size S (0-3 pages +-20 bytes, or tiny) x 4 flag sets x op list (write, alloc+commit, read, short read, peek, reclaim, "
	"space queries; lengths relative to S / to the free space / 0 / odd) decoded from seeded random bytes; "
	"non-trivial = write position wrapped at least once AND a chunk or its 2-word header straddled the end of the buffer; "
	"distinct = hash of the decoded op list";
int verif_fork_per_case = 0;
int verif_case_timeout_ms = 20000;
int verif_hang_is_violation = 0;
size_t verif_max_size = 600;
size_t verif_min_size = 8;

#define MAXQ 4096
struct mchunk { uint32_t len, seq; uint8_t kind; uint32_t salt; };

static struct mchunk q[MAXQ];
static unsigned qh, qt;		/* head, tail (count = qt - qh) */
static uint8_t *scratch, *expect;
static size_t scratch_cap;

static int64_t model_bytes(void)
{
	int64_t s = 0;
	for (unsigned i = qh; i < qt; i++) s += q[i % MAXQ].len + RB_OVERHEAD;
	return s;
}

void verif_init(void)
{
	scratch_cap = 5 * 4096 + 64;
	scratch = malloc(scratch_cap);
	expect = malloc(scratch_cap);
}

static int check_head(struct verif_report *r, const void *got, ssize_t n, const char *what)
{
	struct mchunk *m = &q[qh % MAXQ];
	if ((size_t)n != m->len) {
		VFAIL(r, "fifo-length", "%s returned %zd bytes, model head (seq %u) has %u", what, n, m->seq, m->len);
		return -1;
	}
	rb_fill_payload(expect, m->len, m->seq, m->kind, m->salt);
	if (memcmp(expect, got, m->len)) {
		size_t i; const uint8_t *g = got;
		for (i = 0; i < m->len && g[i] == expect[i]; i++) ;
		VFAIL(r, "fifo-bytes", "%s: chunk seq %u len %u differs at byte %zu (got %02x want %02x)", what, m->seq, m->len, i, g[i], expect[i]);
		return -1;
	}
	return 0;
}

int verif_case(const uint8_t *data, size_t size, struct verif_report *r)
{
	struct vr v; vr_init(&v, data, size);
	static unsigned counter;
	char name[64];
	qb_ringbuffer_t *rb;
	uint32_t flags = QB_RB_FLAG_CREATE;
	int sem = 1, peeked = 0;
	uint32_t seq = 0;
	int64_t S;

	qh = qt = 0;
	switch (vr_range(&v, 0, 3)) {
	case 0: flags |= QB_RB_FLAG_SHARED_PROCESS | QB_RB_FLAG_NO_SEMAPHORE; sem = 0; break;
	case 1: flags |= QB_RB_FLAG_SHARED_PROCESS; break;
	case 2: flags |= QB_RB_FLAG_SHARED_THREAD; break;
	case 3: flags |= QB_RB_FLAG_SHARED_THREAD | QB_RB_FLAG_NO_SEMAPHORE; sem = 0; break;
	}
	{
		int k = vr_range(&v, 0, 4), d = (int)vr_range(&v, 0, 40) - 20;
		if (k == 4) S = 1 + vr_range(&v, 0, 3 * 4096);
		else S = (int64_t)k * 4096 + d;
		if (S <= 0) S = 1 + (vr_u8(&v) % 64);
	}
	if (sem) VCLASS(r, K_SEM);
	snprintf(name, sizeof name, "vc07-%d-%u", (int)getpid(), counter++);
	rb = qb_rb_open(name, (size_t)S, flags, 0);
	if (!rb) { r->inconclusive = 1; return 0; }
	uint32_t words = rb->shared_hdr->word_size;
	int wrapped = 0, straddle = 0;
	VLOG(r, "open S=%lld flags=0x%x (%s) real_words=%u\n", (long long)S, flags, sem ? "semaphore" : "no-semaphore", words);
	vop(r, 0xC07, S, flags);

	while (!vr_eof(&v) && !r->fail) {
		unsigned op = vr_u8(&v) % 16;
		ssize_t free_before = qb_rb_space_free(rb), used_before = qb_rb_space_used(rb);
		if (op <= 7) {	/* ---- write (0-5) or alloc+commit (6,7) */
			int lk = vr_u8(&v) % 6, two_step = op >= 6;
			int64_t len;
			switch (lk) {
			case 0: len = vr_u8(&v) % 33; break;
			case 1: len = S - (vr_u8(&v) % 21); break;
			case 2: len = (int64_t)free_before - 12 - ((int)(vr_u8(&v) % 11) - 2); break;
			case 3: len = vr_range(&v, 0, S); break;
			case 4: len = S + 1 + (vr_u8(&v) % 20); break;
			default: len = S - model_bytes() - RB_OVERHEAD - ((int)(vr_u8(&v) % 4) - 1); break;	/* around the contract edge */
			}
			if (len < 0) len = 0;
			if ((size_t)len > scratch_cap) len = scratch_cap;
			int kind = vr_u8(&v) % PAY_KINDS; uint32_t salt = vr_u8(&v);
			int must = (qt == qh && len <= S) || (model_bytes() + len + RB_OVERHEAD <= S);
			uint32_t wp = rb->shared_hdr->write_pt;
			ssize_t rc;
			rb_fill_payload(scratch, len, seq, kind, salt);
			vop(r, two_step ? 2 : 1, len, kind | (salt << 8));
			if (!two_step) {
				rc = qb_rb_chunk_write(rb, scratch, len);
			} else {
				uint8_t *p = qb_rb_chunk_alloc(rb, len);
				if (!p) rc = -errno;
				else { memcpy(p, scratch, len); rc = qb_rb_chunk_commit(rb, len); if (rc == 0) rc = len; }
			}
			VLOG(r, "%s len=%lld payload=%d/%u must_accept=%d -> %zd (free before %zd)\n", two_step ? "alloc+commit" : "write", (long long)len, kind, salt, must, rc, free_before);
			if (must) VCLASS(r, K_MUST);
			if (rc == len) {
				if (qt - qh >= MAXQ) { r->inconclusive = 1; break; }
				q[qt % MAXQ] = (struct mchunk){ (uint32_t)len, seq, (uint8_t)kind, salt }; qt++; seq++;
				uint32_t cw = 2 + (len + 3) / 4;
				if (wp + cw > words) { straddle = 1; VCLASS(r, K_STRADDLE); }
				if (rb->shared_hdr->write_pt < wp || wp + cw >= words) { wrapped = 1; VCLASS(r, K_WRAP); }
				if (len + 12 == free_before || len + 13 == free_before || len + 14 == free_before || len + 15 == free_before) VCLASS(r, K_EXACT);
				if (kind == PAY_MARKER || kind == PAY_FAKEHDR) VCLASS(r, K_MARKER);
				if (len % 4) VCLASS(r, K_ODD);
				if (len == S) VCLASS(r, K_FULL);
			} else if (rc == -EAGAIN) {
				VCLASS(r, K_REFUSED);
				if (must) { VFAIL(r, "capacity-contract", "write of %lld refused although S=%lld, unread=%u chunks (%lld bytes incl. overhead)", (long long)len, (long long)S, qt - qh, (long long)model_bytes()); break; }
				if (qb_rb_space_free(rb) != free_before || qb_rb_space_used(rb) != used_before) { VFAIL(r, "refused-write-changed-state", "space free/used changed by a refused write"); break; }
			} else {
				VFAIL(r, "write-return", "write of %lld returned %zd (expected length or -EAGAIN)", (long long)len, rc); break;
			}
		} else if (op <= 10 && !(sem && peeked)) {	/* ---- read into a big enough buffer */
			ssize_t rc = qb_rb_chunk_read(rb, scratch, scratch_cap, 0);
			vop(r, 3, 0, 0);
			VLOG(r, "read -> %zd (model holds %u)\n", rc, qt - qh);
			if (qt == qh) {
				VCLASS(r, K_EMPTYRD);
				if (rc >= 0) { VFAIL(r, "phantom-chunk", "read on an empty ring returned a chunk of %zd bytes", rc); break; }
			} else {
				if (rc < 0) { VFAIL(r, "lost-chunk", "read returned %zd while %u chunks are unread", rc, qt - qh); break; }
				if (check_head(r, scratch, rc, "read")) break;
				qh++;
			}
		} else if (op == 11 && !(sem && peeked)) {	/* ---- read into a too-small buffer */
			if (qt == qh || q[qh % MAXQ].len == 0) continue;
			size_t bl = q[qh % MAXQ].len - 1 - (vr_u8(&v) % q[qh % MAXQ].len) % 8;
			memset(scratch, 0xEE, bl + 8);
			ssize_t rc = qb_rb_chunk_read(rb, scratch, bl, 0);
			vop(r, 4, bl, 0);
			VLOG(r, "short read buf=%zu -> %zd\n", bl, rc);
			VCLASS(r, K_ENOBUFS);
			if (rc != -ENOBUFS) { VFAIL(r, "short-read", "read with %zu-byte buffer for a %u-byte chunk returned %zd", bl, q[qh % MAXQ].len, rc); break; }
			if (scratch[bl] != 0xEE) { VFAIL(r, "short-read-overflow", "read wrote beyond the caller's buffer"); break; }
		} else if (op <= 13 && !(sem && peeked)) {	/* ---- peek */
			void *p = NULL;
			ssize_t rc = qb_rb_chunk_peek(rb, &p, 0);
			vop(r, 5, 0, 0);
			VLOG(r, "peek -> %zd\n", rc);
			if (qt == qh) {
				VCLASS(r, K_EMPTYRD);
				if (rc > 0 || (rc == 0 && p)) { VFAIL(r, "phantom-chunk", "peek on an empty ring returned a chunk of %zd bytes", rc); break; }
			} else {
				if (rc < 0 || !p) { VFAIL(r, "lost-chunk", "peek returned %zd while %u chunks are unread", rc, qt - qh); break; }
				if (check_head(r, p, rc, "peek")) break;
				peeked = 1;
			}
		} else if (op == 14 || (sem && peeked)) {	/* ---- reclaim */
			if (sem && !peeked) continue;	/* with a semaphore reclaim is only legal after a peek */
			qb_rb_chunk_reclaim(rb);
			vop(r, 6, 0, 0);
			VLOG(r, "reclaim (model holds %u)\n", qt - qh);
			if (qt != qh) { qh++; if (peeked) VCLASS(r, K_PEEK); }
			peeked = 0;
		} else {	/* ---- space queries are pure */
			ssize_t f2 = qb_rb_space_free(rb), u2 = qb_rb_space_used(rb);
			vop(r, 7, 0, 0);
			if (f2 != free_before || u2 != used_before) { VFAIL(r, "space-query", "space queries are not stable"); break; }
			if (qt == qh && u2 != 0) { VFAIL(r, "space-used-empty", "space_used=%zd on an empty ring", u2); break; }
		}
	}
	/* drain: everything written and not read must come out, in order */
	if (!r->fail) {
		if (sem && peeked) { qb_rb_chunk_reclaim(rb); if (qt != qh) qh++; }
		while (qt != qh) {
			ssize_t rc = qb_rb_chunk_read(rb, scratch, scratch_cap, 0);
			if (rc < 0) { VFAIL(r, "lost-chunk", "drain: read returned %zd while %u chunks are unread", rc, qt - qh); break; }
			if (check_head(r, scratch, rc, "drain")) break;
			qh++;
		}
		if (!r->fail) {
			ssize_t rc = qb_rb_chunk_read(rb, scratch, scratch_cap, 0);
			if (rc >= 0) VFAIL(r, "phantom-chunk", "drain: read on an empty ring returned a chunk of %zd bytes", rc);
		}
	}
	qb_rb_close(rb);
	if (!r->fail) {
		char first[256] = "";
		if (verif_private_shm() && shm_entries(first, sizeof first) > 0) VFAIL(r, "shm-residue", "file %s left in /dev/shm after close", first);
	}
	r->nontrivial = wrapped && straddle;
	return 0;
}
