/* C17 - maps behave like a dictionary; notifiers fire exactly once (no iterators held across operations) */
#define WITH_ITERS 0
#include "map_harness.inc"
const char *verif_property = "C17";
const char *verif_class_names[] = { "hashtable", "skiplist", "trie", "rm_absent_prefix_related", "abandoned_traversal", "prefix_iteration",
	"notifier_registered", "iters_freed_compare", "parked_removed", "aimed_rm", "map_emptied", NULL };
const char *verif_rule =
	"case = implementation (hashtable with 8..128 buckets / skiplist / trie) x op list over put/get/rm/count/foreach(complete or stopped after j)/"
	"complete or prefix iteration/notify_add/notify_del(_2), keys from a structured pool (shared prefixes, key = prefix of another key, bytes >= 0x80, 100-300 byte keys); "
	"non-trivial = an rm of an absent key that is a proper prefix or extension of a present key AND an abandoned traversal followed by a mutation; distinct = hash of decoded op list";
int verif_fork_per_case = 0;
int verif_case_timeout_ms = 20000;
int verif_hang_is_violation = 0;
size_t verif_max_size = 300;
size_t verif_min_size = 8;
