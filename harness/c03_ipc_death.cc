/*
 * C03 - death of the peer at any point is detected and fully cleaned up.
 *
 * Crash points are the boundaries of the libc calls the dying process makes (engine/wrap_crash.c):
 * the victim is a forked process that runs the real client (part A) or a real server (part B) and
 * stops with _exit() just before its K-th call (optionally after letting a prefix of a send out).
 *
 *  A  client dies: the server (this process, stepped by the case, see ipc_common.h) with a well
 *     behaved control client; a forked client runs connect / requests (answered, or left queued while
 *     the server is not stepped) / events / disconnect and dies at call K.  Afterwards: destroyed
 *     exactly once per accepted connection (closed before it iff created), control client served,
 *     descriptors, loop registrations and /dev/shm entries back to the baseline.
 *  B  server dies: a forked server dies at call K (or is killed at an op boundary); the client (this
 *     process) runs timed calls: finite timeouts return by the deadline, infinite waits return a
 *     disconnect error within a bound after the death, later calls fail at once, and after
 *     qb_ipcc_disconnect nothing of the connection is left in /dev/shm.
 */
#define IPC_COMMON_REAL_POLL
#include "ipc_common.h"
#include <sys/wait.h>
#include <sys/uio.h>
#include <signal.h>
#include <time.h>
#include "vcrash.h"

const char *verif_property = "C03";
const char *verif_class_names[] = { "A_died_during_handshake", "A_died_connected_idle", "A_died_with_requests_queued", "A_died_mid_request", "A_died_in_disconnect", "A_completed", "A_partial_send", "A_killed_inside_server_callback", "A_closed_asked_for_rerun",
	"B_died_before_ready", "B_died_during_handshake", "B_died_while_client_waited_forever", "B_died_while_client_waited_finite", "B_killed_between_calls", "B_survived", "B_later_call_checked",
	"B_shm_cleanup_checked", "B_listener_set_up_by_living_parent", "shm", "socket", "A_died_with_requests_queued_under_flow_control", "A_connection_on_descriptor_0", NULL };
enum { KA_HANDSHAKE, KA_IDLE, KA_QUEUED, KA_MID, KA_DISC, KA_DONE, KA_PARTIAL, KA_INCB, KA_RETRY, KB_NOTREADY, KB_HANDSHAKE, KB_FOREVER, KB_FINITE, KB_KILLED, KB_SURVIVED, KB_LATER, KB_CLEAN, KB_SPLIT, K_SHM, K_SOCK, KA_FCDEATH, KA_FD0 };
const char *verif_rule =
	"case = part (A client dies / B server dies), transport, script of the victim (A: answered requests, requests left queued, events, proper disconnect or not; B: which requests are answered), "
	"crash point K = index of the libc call before which the victim stops (enumerated 0..N for fixed scripts, random otherwise) with optional partial send, server step choices (A) or client call "
	"list with timeouts incl. infinite and an optional SIGKILL point (B); non-trivial = the victim really died before finishing (K < N or killed); distinct = hash of the decoded case";
int verif_fork_per_case = 1;
int verif_case_timeout_ms = 40000;
int verif_hang_is_violation = 1;
int verif_nondeterministic = 1;		/* two processes and wall-clock bounds: the driver confirms by repetition */
size_t verif_max_size = 120;
size_t verif_min_size = 10;

#define SLACK_MS 3000	/* allowance for scheduling noise on a loaded machine */
static struct verif_report *R;
static struct vr V;
static uint8_t *sbuf, *rbuf;

extern "C" ssize_t __real_write(int, const void *, size_t);
extern "C" int __real_close(int);
static double now_ms(void) { struct timespec ts; clock_gettime(CLOCK_MONOTONIC, &ts); return ts.tv_sec * 1e3 + ts.tv_nsec / 1e6; }
static void msleep(int ms) { struct timespec ts = { ms / 1000, (ms % 1000) * 1000000L }; nanosleep(&ts, NULL); }

/* =====================================================  part A: the client dies  ===== */
enum { ST_ACCEPTED, ST_CREATED, ST_CLOSED, ST_DESTROYED };
struct aconn { qb_ipcs_connection_t *p; bool control; int st; int destroyed; int closed; int msgs; int retries_left; bool closed_final; };
static int a_closed_retries;	/* how often connection_closed asks to be run again for the victim (documented: non-zero = call me again) */
static std::vector<aconn> AC;
static bool next_is_control;
static pid_t a_victim; static int a_kill_in; static bool a_dead; static int a_status;	/* kill the victim from inside a server callback: 1 accept, 2 created, 3 msg_process */
static void a_kill(int where)
{
	if (a_kill_in != where || a_dead || a_victim <= 0) return;
	kill(a_victim, SIGKILL);
	if (waitpid(a_victim, &a_status, 0) == a_victim) a_dead = true;
	VLOG(R, "    (the victim is killed while the server is inside this callback)\n");
}
static qb_ipcs_service_t *S;

static aconn *a_find(qb_ipcs_connection_t *c) { for (auto it = AC.rbegin(); it != AC.rend(); ++it) if (it->p == c && it->st != ST_DESTROYED) return &*it; return NULL; }
static int32_t a_accept(qb_ipcs_connection_t *c, uid_t, gid_t) { AC.push_back(aconn{ c, next_is_control, ST_ACCEPTED, 0, 0, 0, next_is_control ? 0 : a_closed_retries, false }); VLOG(R, "  [cb] accept (%s)\n", next_is_control ? "control" : "victim"); if (!next_is_control) a_kill(1); return 0; }
static void a_created(qb_ipcs_connection_t *c) { aconn *a = a_find(c); if (a) a->st = ST_CREATED; VLOG(R, "  [cb] created\n"); if (a && !a->control) a_kill(2); }
static int32_t a_msg(qb_ipcs_connection_t *c, void *data, size_t size)
{
	aconn *a = a_find(c);
	struct qb_ipc_request_header *h = (struct qb_ipc_request_header *)data;
	if (!a) { VFAIL(R, "msg-after-destroyed", "msg_process for a connection that is already destroyed"); return 0; }
	if (a->st != ST_CREATED) VFAIL(R, "msg-order", "msg_process for a connection in state %d", a->st);
	a->msgs++;
	(void)size;
	if (!a->control) a_kill(3);
	struct qb_ipc_response_header rh; rh.id = h->id; rh.size = sizeof rh; rh.error = 0;
	if (h->id != 3) qb_ipcs_response_send(c, &rh, sizeof rh);
	if (h->id == 2) { rh.id = 20; qb_ipcs_event_send(c, &rh, sizeof rh); rh.id = 21; qb_ipcs_event_send(c, &rh, sizeof rh); }
	return 0;
}
static int32_t a_closed(qb_ipcs_connection_t *c)
{
	aconn *a = a_find(c);
	VLOG(R, "  [cb] closed (%s)%s\n", a && a->control ? "control" : "victim", a && a->retries_left > 0 ? " -> asks to be called again" : "");
	if (!a) { VFAIL(R, "closed-after-destroyed", "connection_closed for a connection that is already destroyed"); return 0; }
	if (a->st != ST_CREATED && !(a->st == ST_CLOSED && !a->closed_final)) VFAIL(R, "closed-order", "connection_closed for a connection in state %d (created never reported, or closed again after it had returned 0)", a->st);
	a->st = ST_CLOSED; a->closed++;
	if (a->retries_left > 0) { a->retries_left--; VCLASS(R, KA_RETRY); return -EAGAIN; }
	a->closed_final = true;
	return 0;
}
static void a_destroyed(qb_ipcs_connection_t *c)
{
	aconn *a = a_find(c);
	VLOG(R, "  [cb] destroyed (%s)\n", a && a->control ? "control" : "victim");
	if (!a) { VFAIL(R, "destroyed-twice", "connection_destroyed for a connection that is already destroyed (or was never accepted)"); return; }
	if (a->st == ST_CREATED) VFAIL(R, "destroyed-without-closed", "connection_destroyed without connection_closed for a connection that had been reported as created");
	else if (a->st == ST_CLOSED && !a->closed_final) VFAIL(R, "destroyed-before-closed-done", "connection_destroyed although connection_closed had asked to be called again");
	a->st = ST_DESTROYED; a->destroyed++;
}

struct ascript { int n_sync, n_queued, events, proper_disconnect, linger_ms; };

/* the dying client; never returns */
static void victim_client(const char *name, const ascript &sc, long K, int partial, int rfd)
{
	vcrash_arm(K, partial, rfd);
	qb_ipcc_connection_t *c = qb_ipcc_connect(name, 0);
	if (__real_write(rfd, "C\n", 2) < 0) {}
	if (!c) _exit(3);
	struct qb_ipc_request_header h;
	for (int i = 0; i < sc.n_sync; i++) {
		h.id = (sc.events && i == 0) ? 2 : 1; h.size = sizeof h;
		if (qb_ipcc_send(c, &h, sizeof h) < 0) break;
		char buf[256];
		qb_ipcc_recv(c, buf, sizeof buf, 2000);
		if (h.id == 2) { qb_ipcc_event_recv(c, buf, sizeof buf, 1000); }
	}
	if (__real_write(rfd, "S\n", 2) < 0) {}
	for (int i = 0; i < sc.n_queued; i++) { h.id = 3; h.size = sizeof h; qb_ipcc_send(c, &h, sizeof h); }
	if (__real_write(rfd, "Q\n", 2) < 0) {}
	if (sc.linger_ms) msleep(sc.linger_ms);
	if (sc.proper_disconnect) { if (__real_write(rfd, "D\n", 2) < 0) {} qb_ipcc_disconnect(c); }
	char b[64]; int n = snprintf(b, sizeof b, "N %ld\n", vcrash_count());
	if (__real_write(rfd, b, n) < 0) {}
	_exit(0);
}

static bool control_roundtrip(qb_ipcc_connection_t *ctl, const char *when)
{
	struct qb_ipc_request_header h; h.id = 1; h.size = sizeof h;
	ssize_t rc = qb_ipcc_send(ctl, &h, sizeof h);
	if (rc != (ssize_t)sizeof h) { VFAIL(R, "control-send-failed", "the surviving control client could not send (%zd) %s", rc, when); return false; }
	for (int i = 0; i < 300; i++) {
		ssize_t n = qb_ipcc_recv(ctl, rbuf, 4096, 0);
		if (n >= (ssize_t)sizeof(struct qb_ipc_response_header)) return true;
		if (!server_step(0)) break;
	}
	if (qb_ipcc_recv(ctl, rbuf, 4096, 0) >= (ssize_t)sizeof(struct qb_ipc_response_header)) return true;
	VFAIL(R, "control-not-served", "the surviving control client got no answer %s", when);
	return false;
}

static void part_a(struct verif_report *r, enum qb_ipc_type type, const ascript &sc, long K, int partial, bool lazy, int kill_in, int fc_at_death = 0, bool fd0_free = false)
{
	a_victim = 0; a_kill_in = kill_in; a_dead = false;	/* a_closed_retries is set by the caller */
	DISP.clear(); JOBS.clear(); AC.clear();
	std::string name = ipc_name();
	struct qb_ipcs_service_handlers sh = { a_accept, a_created, a_msg, a_closed, a_destroyed };
	S = qb_ipcs_create(name.c_str(), 0, type, &sh);
	if (!S) { r->inconclusive = 1; return; }
	qb_ipcs_poll_handlers_set(S, &POLLH);
	if (qb_ipcs_run(S) != 0) { r->inconclusive = 1; return; }
	int err = 0;
	next_is_control = true;
	qb_ipcc_connection_t *ctl = client_connect(name.c_str(), 0, &err);
	next_is_control = false;
	if (!ctl) { r->inconclusive = 1; return; }
	if (!control_roundtrip(ctl, "before the victim appeared")) return;
	int base_fds = count_open_fds(), base_shm = count_shm_entries(); size_t base_disp = DISP.size();

	int pfd[2];
	if (pipe(pfd)) { r->inconclusive = 1; return; }
	fflush(NULL);
	pid_t pid = fork();
	if (pid < 0) { r->inconclusive = 1; return; }
	if (pid == 0) {
		/* nothing of the server's may live on in the victim */
		for (int fd = 3; fd < 256; fd++) if (fd != pfd[1]) __real_close(fd);
		victim_client(name.c_str(), sc, K, partial, pfd[1]);
	}
	close(pfd[1]);
	if (fd0_free) {
		/* a daemon that has closed its standard input: the next descriptor the server gets - the victim's connection - is number 0 */
		__real_close(0); base_fds--;
		VLOG(r, "the server's descriptor 0 is free when the client connects\n");
	}
	a_victim = pid;
	fcntl(pfd[0], F_SETFL, O_NONBLOCK);
	std::string rep; bool dead = false, seen_q = false, fc_applied = false; int status = 0; unsigned fair = 0; double t_dead = 0;
	double t0 = now_ms();
	for (;;) {
		char b[256]; ssize_t n = read(pfd[0], b, sizeof b);
		if (n > 0) rep.append(b, (size_t)n);
		if (rep.find("S\n") != std::string::npos) seen_q = true;
		if (a_dead) dead = true;
		if (!dead && waitpid(pid, &status, WNOHANG) == pid) dead = true;
		if (dead && fc_at_death && !fc_applied) {
			/* the application has switched request processing off (flow control) by the time the server gets to look at the dead client's connection */
			fc_applied = true;
			qb_ipcs_request_rate_limit(S, fc_at_death == 2 ? QB_IPCS_RATE_OFF_2 : QB_IPCS_RATE_OFF);
			VLOG(r, "the client is dead; the application sets the request rate limit to OFF%s before the server's next turn\n", fc_at_death == 2 ? "_2" : "");
		}
		bool hold = lazy && seen_q && !dead;		/* leave the victim's requests queued until it is dead */
		/* with request processing switched off a descriptor with queued requests stays ready without making progress: every ready descriptor gets its turn, as in a real loop */
		int did = hold ? 0 : server_step(fc_applied ? fair++ : vr_u8(&V));
		if (fc_applied && !t_dead) t_dead = now_ms();
		if (fc_applied && did && now_ms() - t_dead > 4000) { VLOG(r, "the server's loop is still busy 4 s after the client's death\n"); break; }
		if (!did) {
			if (dead) { n = read(pfd[0], b, sizeof b); if (n > 0) rep.append(b, (size_t)n); break; }
			msleep(1);
		}
		if (now_ms() - t0 > 15000) { kill(pid, SIGKILL); if (!a_dead) waitpid(pid, &status, 0); VFAIL(r, "victim-stuck", "the victim client neither finished nor died within 15 s (report so far: %s)", rep.c_str()); break; }
	}
	close(pfd[0]);
	if (r->fail) return;
	if (fc_applied) { for (unsigned i = 0; i < 3000 && server_step(i); i++) ; }
	else server_drain(3000);
	/* where did it die? */
	bool completed = rep.find("N ") != std::string::npos;
	size_t kp = rep.find("K ");
	if (a_dead) { VCLASS(r, KA_INCB); r->nontrivial = 1; }
	if (fd0_free && rep.find("C\n") != std::string::npos) VCLASS(r, KA_FD0);
	if (fc_applied && lazy && sc.n_queued && rep.find("Q\n") != std::string::npos) VCLASS(r, KA_FCDEATH);
	std::string where = a_dead ? std::string("killed inside the server's ") + (kill_in == 1 ? "accept" : kill_in == 2 ? "created" : "msg_process") + " callback" : completed ? "completed (" + rep.substr(rep.find("N "), rep.find('\n', rep.find("N ")) - rep.find("N ")) + " calls)" : kp != std::string::npos ? rep.substr(kp, rep.find('\n', kp) - kp) : "died (no report)";
	VLOG(r, "victim: %s; phases seen: %s%s%s%s\n", where.c_str(), rep.find("C\n") != std::string::npos ? "connected " : "", rep.find("S\n") != std::string::npos ? "sync-done " : "",
	     rep.find("Q\n") != std::string::npos ? "queued " : "", rep.find("D\n") != std::string::npos ? "disconnecting" : "");
	if (completed && sc.proper_disconnect) VCLASS(r, KA_DONE);
	else if (completed) { r->nontrivial = 1; VCLASS(r, sc.n_queued ? KA_QUEUED : KA_IDLE); }	/* exits without disconnecting: dies connected */
	else {
		r->nontrivial = 1;
		if (rep.find("C\n") == std::string::npos) VCLASS(r, KA_HANDSHAKE);
		else if (rep.find("D\n") != std::string::npos) VCLASS(r, KA_DISC);
		else if (rep.find("Q\n") != std::string::npos) VCLASS(r, sc.n_queued ? KA_QUEUED : KA_IDLE);
		else if (rep.find("S\n") != std::string::npos) VCLASS(r, KA_QUEUED);
		else VCLASS(r, sc.n_sync ? KA_MID : KA_IDLE);
		if (where.find("partial") != std::string::npos) VCLASS(r, KA_PARTIAL);
	}
	/* ---- oracle */
	int victims = 0;
	for (auto &a : AC) if (!a.control) {
		victims++;
		if (a.st != ST_DESTROYED) { VFAIL(r, "dead-client-not-destroyed", "the client is dead and the server idle, but its connection (state %d, %d message(s) processed) was never destroyed [victim %s]", a.st, a.msgs, where.c_str()); return; }
		if (a.destroyed != 1) { VFAIL(r, "destroyed-count", "connection_destroyed ran %d times for the dead client's connection", a.destroyed); return; }
	}
	if (victims > 1) { VFAIL(r, "phantom-connection", "one victim client, %d accepted connections", victims); return; }
	int fds = count_open_fds(), shm = count_shm_entries(); size_t disp = DISP.size();
	if (fds != base_fds) { VFAIL(r, "descriptor-residue", "%d descriptors open in the server after the client died, %d before it came [victim %s]", fds, base_fds, where.c_str()); return; }
	if (disp != base_disp) { VFAIL(r, "dispatch-residue", "%zu loop registrations after the client died, %zu before it came [victim %s]", disp, base_disp, where.c_str()); return; }
	if (shm != base_shm) { std::string first; count_shm_entries(&first); VFAIL(r, "shm-residue", "%d entries in /dev/shm after the client died, %d before it came (e.g. %s) [victim %s]", shm, base_shm, first.c_str(), where.c_str()); return; }
	struct qb_ipcs_stats st; qb_ipcs_stats_get(S, &st, QB_FALSE);
	if (st.active_connections != 1) { VFAIL(r, "stats-active", "qb_ipcs_stats_get reports %u active connections, only the control client is connected [victim %s]", st.active_connections, where.c_str()); return; }
	if (fc_applied) qb_ipcs_request_rate_limit(S, QB_IPCS_RATE_NORMAL);
	if (!control_roundtrip(ctl, "after the victim died")) return;
	qb_ipcc_disconnect(ctl);
	server_drain(500);
	qb_ipcs_destroy(S);
	server_drain(500);
}

/* =====================================================  part B: the server dies  ===== */
static volatile double death_ms;
static volatile pid_t server_pid;
static volatile int server_dead, server_status;
static void on_chld(int) { int st; if (server_pid > 0 && waitpid(server_pid, &st, WNOHANG) == server_pid) { server_dead = 1; server_status = st; death_ms = now_ms(); } }

static int32_t b_accept(qb_ipcs_connection_t *, uid_t, gid_t) { return 0; }
static void b_created(qb_ipcs_connection_t *) {}
static int32_t b_msg(qb_ipcs_connection_t *c, void *data, size_t)
{
	struct qb_ipc_request_header *h = (struct qb_ipc_request_header *)data;
	struct qb_ipc_response_header rh; rh.id = h->id; rh.size = sizeof rh; rh.error = 0;
	if (h->id == 4) { qb_ipcs_disconnect(c); return 0; }	/* the server throws the client out (and may die half way through the teardown) */
	if (h->id != 3) qb_ipcs_response_send(c, &rh, sizeof rh);
	if (h->id == 2) { rh.id = 20; qb_ipcs_event_send(c, &rh, sizeof rh); }
	return 0;
}
static int32_t b_closed(qb_ipcs_connection_t *) { return 0; }
static void b_destroyed(qb_ipcs_connection_t *) {}

static struct qb_ipcs_service_handlers B_SH = { b_accept, b_created, b_msg, b_closed, b_destroyed };
static void victim_server(const char *name, enum qb_ipc_type type, long K, int partial, int rfd, bool listener_inherited)
{
	vcrash_arm(K, partial, rfd);
	if (!listener_inherited) {
		DISP.clear(); JOBS.clear();
		qb_ipcs_service_t *s = qb_ipcs_create(name, 0, type, &B_SH);
		if (!s) _exit(4);
		qb_ipcs_poll_handlers_set(s, &POLLH);
		if (qb_ipcs_run(s) != 0) _exit(5);
	}
	if (__real_write(rfd, "R\n", 2) < 0) {}
	for (;;) {
		if (!server_step(0)) {
			std::vector<struct pollfd> p; for (auto &e : DISP) p.push_back(pollfd{ e.fd, (short)e.events, 0 });
			if (getppid() == 1) _exit(0);
			__real_poll(p.data(), p.size(), 20);
		}
	}
}

static bool is_disconnect_error(ssize_t rc) { return rc < 0 && qb_ipc_us_sock_error_is_disconnected((int)rc); }

static void part_b(struct verif_report *r, enum qb_ipc_type type, long K, int partial, bool split = false)
{
	std::string name = ipc_name();
	qb_ipcs_service_t *sup = NULL;
	if (split) {
		/* supervisor/worker layout: this process sets the service up and keeps living, a forked worker serves (and dies) */
		DISP.clear(); JOBS.clear();
		sup = qb_ipcs_create(name.c_str(), 0, type, &B_SH);
		if (!sup) { r->inconclusive = 1; return; }
		qb_ipcs_poll_handlers_set(sup, &POLLH);
		if (qb_ipcs_run(sup) != 0) { r->inconclusive = 1; return; }
		K = 1000000; partial = -1;
		VCLASS(r, KB_SPLIT);
		VLOG(r, "the service is set up (listening) by this process; a forked worker serves\n");
	}
	int pfd[2];
	if (pipe(pfd)) { r->inconclusive = 1; return; }
	struct sigaction sa; memset(&sa, 0, sizeof sa); sa.sa_handler = on_chld; sa.sa_flags = SA_RESTART; sigaction(SIGCHLD, &sa, NULL);
	server_dead = 0; death_ms = 0; server_pid = 0;
	fflush(NULL);
	sigset_t blk, old; sigemptyset(&blk); sigaddset(&blk, SIGCHLD); sigprocmask(SIG_BLOCK, &blk, &old);
	pid_t pid = fork();
	if (pid < 0) { r->inconclusive = 1; return; }
	if (pid == 0) {
		sigprocmask(SIG_SETMASK, &old, NULL); signal(SIGCHLD, SIG_DFL);
		for (int fd = 3; fd < 256; fd++) { bool keep = fd == pfd[1]; if (split) for (auto &e : DISP) if (e.fd == fd) keep = true; if (!keep) __real_close(fd); }
		victim_server(name.c_str(), type, K, partial, pfd[1], split);
		_exit(0);
	}
	server_pid = pid;
	sigprocmask(SIG_SETMASK, &old, NULL);
	close(pfd[1]);
	/* wait until it listens, or is dead */
	std::string rep; char b[128];
	for (;;) {
		struct pollfd p = { pfd[0], POLLIN, 0 };
		int pr = poll(&p, 1, 5000);
		if (pr <= 0) { if (pr < 0 && errno == EINTR) continue; break; }
		ssize_t n = read(pfd[0], b, sizeof b);
		if (n <= 0) break;
		rep.append(b, (size_t)n);
		if (rep.find("R\n") != std::string::npos) break;
	}
	bool ready = rep.find("R\n") != std::string::npos;
	if (!ready) VCLASS(r, KB_NOTREADY);
	VLOG(r, "server process: %s\n", ready ? "listening" : "died before it listened");

	double t = now_ms();
	qb_ipcc_connection_t *c = qb_ipcc_connect(name.c_str(), 0);
	double el = now_ms() - t;
	VLOG(r, "client: qb_ipcc_connect -> %s after %.0f ms (server %s)\n", c ? "connected" : "failed", el, server_dead ? "dead" : "alive");
	if (el > 6000) { VFAIL(r, "connect-late", "qb_ipcc_connect took %.0f ms to %s although the server %s", el, c ? "succeed" : "fail", server_dead ? "died during the handshake" : "is alive"); }
	if (!c) {
		for (int j = 0; j < 200 && !server_dead; j++) msleep(2);	/* the failure usually is the first sign of the death */
		if (server_dead) { r->nontrivial = 1; VCLASS(r, ready ? KB_HANDSHAKE : KB_NOTREADY); }
		else { kill(pid, SIGKILL); for (int i = 0; i < 500 && !server_dead; i++) msleep(2); if (!r->fail) r->inconclusive = 1; }
		close(pfd[0]);
		return;
	}
	bool saw_disconnect = false, checked_forever = false;
	int nops = 3 + vr_u8(&V) % 6;
	int kill_at = (vr_u8(&V) % 3 == 0) ? (int)(vr_u8(&V) % nops) : -1;
	if (split && kill_at < 0) kill_at = nops / 2;
	for (int i = 0; i < nops && !r->fail; i++) {
		if (i == kill_at && !server_dead) {
			kill(pid, SIGKILL);
			for (int j = 0; j < 1000 && !server_dead; j++) msleep(2);
			VLOG(r, "server process: killed (SIGKILL) between two calls\n"); VCLASS(r, KB_KILLED); r->nontrivial = 1;
		}
		unsigned kind = vr_u8(&V) % 5, idsel = vr_u8(&V) % 4, tsel = vr_u8(&V) % 3;
		static const int T[] = { 0, 60, 400 };
		int timeout = T[tsel];
		vop(r, kind, idsel, tsel);
		struct qb_ipc_request_header h; h.size = sizeof h;
		struct iovec iov = { &h, sizeof h };
		bool was_dead = server_dead, was_disc = saw_disconnect;
		ssize_t rc = 0; const char *what = ""; bool forever = false;
		t = now_ms();
		switch (kind) {
		case 0: h.id = 1 + idsel; rc = qb_ipcc_send(c, &h, sizeof h); if (rc >= 0) rc = qb_ipcc_recv(c, rbuf, 4096, timeout); what = "send + recv(T)"; break;
		case 1: h.id = 1 + idsel; rc = qb_ipcc_sendv_recv(c, &iov, 1, rbuf, 4096, timeout); what = "sendv_recv(T)"; break;
		case 2: h.id = idsel == 3 ? 4 : 1 + idsel % 2; timeout = -1; forever = true; rc = qb_ipcc_sendv_recv(c, &iov, 1, rbuf, 4096, -1); what = "sendv_recv(forever)"; break;
		case 3: rc = qb_ipcc_event_recv(c, rbuf, 4096, timeout); what = "event_recv(T)"; break;
		default:
			/* an event is on its way only after a request with id 2 was answered */
			h.id = 2; rc = qb_ipcc_sendv_recv(c, &iov, 1, rbuf, 4096, 400);
			if (rc >= 0) { timeout = -1; forever = true; t = now_ms(); rc = qb_ipcc_event_recv(c, rbuf, 4096, -1); what = "event_recv(forever)"; }
			else { timeout = 400; what = "sendv_recv(T) [for an event]"; }
			break;
		}
		el = now_ms() - t;
		double since_death = server_dead ? now_ms() - death_ms : 0;
		VLOG(r, "client: %s id %d timeout %d -> %zd after %.0f ms (server %s)\n", what, h.id, timeout, rc, el, server_dead ? "dead" : "alive");
		if (is_disconnect_error(rc)) saw_disconnect = true;
		if (!forever) {
			if (el > timeout + SLACK_MS) VFAIL(r, "finite-timeout-overrun", "%s with a timeout of %d ms returned %zd after %.0f ms (server %s)", what, timeout, rc, el, server_dead ? "dead" : "alive");
			if (server_dead && !was_dead) VCLASS(r, KB_FINITE);
		} else {
			if (server_dead) {
				checked_forever = true;
				if (!was_dead) VCLASS(r, KB_FOREVER);
				double waited = was_dead ? el : since_death;
				if (waited > 2 * QB_IPC_MAX_WAIT_MS + SLACK_MS) VFAIL(r, "infinite-wait-not-ended", "%s returned %zd only %.0f ms after the server had died", what, rc, waited);
				else if (rc >= 0 && was_dead) { /* a message that was already queued may still be handed out */ }
				else if (rc < 0 && !is_disconnect_error(rc)) VFAIL(r, "infinite-wait-wrong-error", "%s returned %zd (not a disconnect error) although the server is dead", what, rc);
			}
		}
		if (was_disc && was_dead && !r->fail) {	/* the statement is about a dead server; a live server that threw the client out is not covered */
			VCLASS(r, KB_LATER);
			if (rc >= 0) VFAIL(r, "call-succeeds-after-disconnect", "%s returned %zd although an earlier call had already reported the disconnect", what, rc);
			else if (el > timeout + SLACK_MS && !forever) VFAIL(r, "late-failure-after-disconnect", "%s took %.0f ms to fail after the disconnect had been reported", what, el);
			else if (forever && el > SLACK_MS) VFAIL(r, "late-failure-after-disconnect", "%s took %.0f ms to fail after the disconnect had been reported", what, el);
		}
	}
	if (r->fail) { kill(pid, SIGKILL); close(pfd[0]); qb_ipcc_disconnect(c); return; }
	(void)checked_forever;
	bool died = server_dead;
	if (!server_dead) {
		if (K >= 0 && K < 100000) { /* the crash point was never reached */ }
		kill(pid, SIGKILL);
		for (int j = 0; j < 1000 && !server_dead; j++) msleep(2);
		VCLASS(r, KB_SURVIVED);
	} else r->nontrivial = 1;
	{ ssize_t n; while ((n = read(pfd[0], b, sizeof b)) > 0) rep.append(b, (size_t)n); }
	close(pfd[0]);
	size_t kp = rep.find("K ");
	VLOG(r, "server process: %s\n", kp != std::string::npos ? rep.substr(kp, rep.find('\n', kp) - kp).c_str() : died ? "killed" : "killed at the end");
	if (!server_dead) { r->inconclusive = 1; return; }
	/* the dead server left its files behind; the client's disconnect removes them */
	qb_ipcc_disconnect(c);
	VCLASS(r, KB_CLEAN);
	/* the statement speaks of files: the (then empty) per-connection directory which the shm client leaves is not counted */
	std::string first; int left = count_shm_files(&first);
	if (sup) { qb_ipcs_destroy(sup); server_drain(50); }
	if (left != 0) VFAIL(r, "shm-left-behind", "%d file(s) are left below /dev/shm after the server died and the client disconnected (e.g. %s)", left, first.c_str());
}

/* =====================================================  cases  ===== */
static const ascript FIXED[] = { { 0, 0, 0, 1, 0 }, { 1, 0, 0, 1, 0 }, { 1, 2, 1, 1, 0 }, { 0, 3, 0, 0, 0 } };
#define HS_REQ_PREFIXES 23	/* the handshake request has 24 bytes: every proper, non-empty prefix */
#define HS_RSP_PREFIXES 12	/* the (large) handshake response: a sample of prefix lengths */
static const uint16_t RSP_PREFIX[HS_RSP_PREFIXES] = { 1, 4, 8, 15, 16, 23, 24, 25, 64, 300, 1000, 4000 };
#define ENUM_KA 64	/* the longest fixed client script makes 51 calls */
#define ENUM_KB 84	/* the server makes about 70 calls from start to the end of a fixed client script */
/* fixed client scripts for part B: number of ops - 3, "no kill", then (kind, id, timeout) triples */
static const uint8_t BSCRIPT[3][32] = {
	{ 5, 1,  1,0,2, 2,0,0, 4,0,0, 0,1,1, 3,0,1, 2,1,0, 1,2,1, 2,0,0 },
	{ 3, 1,  2,1,0, 4,0,0, 2,0,0, 4,0,0, 0,0,2, 3,0,2 },
	{ 1, 1,  1,0,2, 2,3,0, 0,0,1, 3,0,1 },	/* the second request makes the server throw the client out */
};
extern "C" size_t verif_enum_count(const char *tier)
{
	(void)tier;	/* both tiers enumerate every crash point: part A 2 transports x 4 scripts x K; part B 2 transports x 3 scripts x K */
	return 2 * 4 * ENUM_KA + 2 * 3 * ENUM_KB + 2 * 3 * 2 + 2 * HS_REQ_PREFIXES + 2 * HS_RSP_PREFIXES + 2 * 3 + 2 * ENUM_KA + 2 * ENUM_KA;
}
extern "C" size_t verif_enum_case(size_t idx, uint8_t *buf, size_t cap)
{
	if (cap < 40) return 0;
	memset(buf, 0, 40);
	size_t base_n = 2 * 4 * ENUM_KA + 2 * 3 * ENUM_KB + 2 * 3 * 2 + 2 * HS_REQ_PREFIXES + 2 * HS_RSP_PREFIXES + 2 * 3;
	if (idx >= base_n + 2 * ENUM_KA) {	/* the client with one answered and two queued requests dies at every K on a server whose descriptor 0 was free: its connection is descriptor 0 */
		idx -= base_n + 2 * ENUM_KA;
		buf[0] = 0xA0; buf[1] = idx / ENUM_KA; buf[2] = 2; uint16_t k = idx % ENUM_KA; memcpy(buf + 3, &k, 2); buf[7] = 3;
		return 8;
	}
	if (idx >= base_n) {	/* the client with three requests left queued dies at every K while the application has request processing switched off when the server looks next */
		idx -= base_n;
		buf[0] = 0xA0; buf[1] = idx / ENUM_KA; buf[2] = 3; uint16_t k = idx % ENUM_KA; memcpy(buf + 3, &k, 2); buf[7] = 1 + (idx % 2);
		return 8;
	}
	if (idx < 2 * 4 * ENUM_KA) { buf[0] = 0xA0; buf[1] = (idx / ENUM_KA) / 4; buf[2] = (idx / ENUM_KA) % 4; uint16_t k = idx % ENUM_KA; memcpy(buf + 3, &k, 2); return 8; }
	idx -= 2 * 4 * ENUM_KA;
	if (idx >= 2 * 3 * ENUM_KB + 12) {	/* death after a prefix of the handshake message: the client's request (every prefix), the server's response (sampled) */
		idx -= 2 * 3 * ENUM_KB + 12;
		uint16_t k = 0xfffe;	/* "at the first send" */
		if (idx < 2 * HS_REQ_PREFIXES) { buf[0] = 0xA0; buf[1] = idx / HS_REQ_PREFIXES; buf[2] = 1; memcpy(buf + 3, &k, 2); buf[5] = 0; buf[6] = 1 + idx % HS_REQ_PREFIXES; return 8; }
		idx -= 2 * HS_REQ_PREFIXES;
		if (idx >= 2 * HS_RSP_PREFIXES) {	/* supervisor/worker layout: the listener was set up by a process that stays alive; the worker is killed between two calls */
			idx -= 2 * HS_RSP_PREFIXES;
			uint16_t kk = 0xffff;
			buf[0] = 0xB0; buf[1] = idx / 3; buf[2] = 0x80 | (idx % 3); memcpy(buf + 3, &kk, 2);
			memcpy(buf + 5, BSCRIPT[idx % 3], sizeof BSCRIPT[0]);
			return 5 + sizeof BSCRIPT[0];
		}
		buf[0] = 0xB0; buf[1] = idx / HS_RSP_PREFIXES; buf[2] = 0; memcpy(buf + 3, &k, 2);
		memcpy(buf + 5, BSCRIPT[0], sizeof BSCRIPT[0]);
		uint16_t n = RSP_PREFIX[idx % HS_RSP_PREFIXES]; memcpy(buf + 5 + sizeof BSCRIPT[0], &n, 2);
		return 5 + sizeof BSCRIPT[0] + 2;
	}
	if (idx >= 2 * 3 * ENUM_KB) {		/* the client is killed while the server is inside a callback for it: transport x callback x script */
		idx -= 2 * 3 * ENUM_KB;
		buf[0] = 0xA0; buf[1] = idx / 6; buf[2] = 1 + (idx % 2); uint16_t k = 0xffff; memcpy(buf + 3, &k, 2); buf[5] = 1 + (idx % 6) / 2;
		return 8;
	}
	uint16_t k = idx % ENUM_KB; size_t v = idx / ENUM_KB;
	buf[0] = 0xB0; buf[1] = v / 3; buf[2] = v % 3; memcpy(buf + 3, &k, 2);
	memcpy(buf + 5, BSCRIPT[v % 3], sizeof BSCRIPT[0]);
	return 5 + sizeof BSCRIPT[0];
}

extern "C" void verif_init(void) { sbuf = (uint8_t *)malloc(70000); rbuf = (uint8_t *)malloc(70000); signal(SIGPIPE, SIG_IGN); }

extern "C" int verif_case(const uint8_t *data, size_t size, struct verif_report *r)
{
	vr_init(&V, data, size);
	R = r;
	unsigned first = vr_u8(&V);
	if (first == 0xA0 || first == 0xB0) {		/* enumerated */
		enum qb_ipc_type type = vr_u8(&V) ? QB_IPC_SHM : QB_IPC_SOCKET;
		unsigned siraw = vr_u8(&V), si = siraw % 4; long K = vr_u16(&V); bool split = first == 0xB0 && (siraw & 0x80); int kin = first == 0xA0 ? (int)(vr_u8(&V) % 4) : 0;
		int partial = -1, fcd = first == 0xA0 && size >= 8 ? data[7] % 3 : 0; bool fd0 = first == 0xA0 && size >= 8 && (data[7] / 3) % 2;
		if (K == 0xfffe) {	/* stop after a prefix of the first message sent */
			K = -2;
			if (first == 0xA0) partial = (int)vr_u8(&V);
			else { partial = (int)(data[size - 2] | (data[size - 1] << 8)); }
		}
		VCLASS(r, type == QB_IPC_SHM ? K_SHM : K_SOCK);
		vop(r, first, type, si); vop(r, K, 0, 0);
		if (first == 0xA0) { VLOG(r, "part A (client dies), %s, fixed script %u, crash point %ld\n", type == QB_IPC_SHM ? "shm" : "socket", si, K); a_closed_retries = si == 2 ? 2 : si == 1 ? 1 : 0; part_a(r, type, FIXED[si], K, partial, si == 3, kin, fcd, fd0); }
		else { VLOG(r, "part B (server dies), %s, crash point %ld\n", type == QB_IPC_SHM ? "shm" : "socket", K); part_b(r, type, K, partial, split); }
		return 0;
	}
	bool partA = first % 2 == 0;
	enum qb_ipc_type type = vr_bool(&V) ? QB_IPC_SHM : QB_IPC_SOCKET;
	VCLASS(r, type == QB_IPC_SHM ? K_SHM : K_SOCK);
	long K = vr_u8(&V) % 8 == 0 ? 1000000 : (long)(vr_u16(&V) % (partA ? 70 : 95));
	int partial = vr_u8(&V) % 4 == 0 ? (int)vr_u8(&V) : -1;
	if (vr_u8(&V) % 6 == 0) { K = -2; if (partial <= 0) partial = 1 + (int)(vr_u8(&V) % 23); }	/* stop after a prefix of the handshake message */
	if (partA) {
		ascript sc; sc.n_sync = vr_u8(&V) % 3; sc.n_queued = vr_u8(&V) % 4; sc.events = vr_u8(&V) % 2; sc.proper_disconnect = vr_u8(&V) % 2; sc.linger_ms = vr_u8(&V) % 4 == 0 ? 1 + vr_u8(&V) % 5 : 0;
		bool lazy = sc.n_sync == 0 ? vr_bool(&V) : (vr_u8(&V) % 4 == 0);
		int kin = vr_u8(&V) % 5 == 0 ? 1 + (int)(vr_u8(&V) % 3) : 0;
		if (kin) K = 1000000;
		vop(r, 0xA, type, K); vop(r, sc.n_sync, sc.n_queued, sc.events * 2 + sc.proper_disconnect); vop(r, partial, lazy, sc.linger_ms);
		VLOG(r, "part A (client dies), %s: %d answered request(s)%s, %d queued, %s, crash point %ld%s%s\n", type == QB_IPC_SHM ? "shm" : "socket", sc.n_sync, sc.events ? " (first asks for events)" : "",
		     sc.n_queued, sc.proper_disconnect ? "disconnects" : "just exits", K, partial >= 0 ? " with a partial send" : "", lazy ? "; the server leaves queued requests alone until the client is dead" : "");
		a_closed_retries = vr_u8(&V) % 3 == 0 ? 1 + (int)(vr_u8(&V) % 3) : 0;
		int fcd = vr_u8(&V) % 3 == 0 ? 1 + (int)(vr_u8(&V) % 2) : 0;
		bool fd0 = (K + sc.n_sync + sc.n_queued) % 4 == 3;	/* derived, so that older case files decode as before */
		vop(r, kin, a_closed_retries, fcd + 4 * fd0);
		part_a(r, type, sc, K, partial, lazy, kin, fcd, fd0);
	} else {
		vop(r, 0xB, type, K); vop(r, partial, 0, 0);
		VLOG(r, "part B (server dies), %s, crash point %ld%s\n", type == QB_IPC_SHM ? "shm" : "socket", K, partial >= 0 ? " with a partial send" : "");
		bool split = vr_u8(&V) % 5 == 0;
		vop(r, split, 0, 0);
		part_b(r, type, K, partial, split);
	}
	return 0;
}
