/*
 * C01 - ring buffer, one writer + one reader, explored interleavings.
 *
 * Two handles on the same ring (creator + opener, as two processes would have),
 * one party each, scheduled by the cooperative engine (engine/vsched.c) with a
 * yield point at every instrumented access to the shared header / data words
 * and at every semaphore operation.  Oracle: the chunks the reader is handed
 * are, at every moment, a prefix of the writes that succeed, byte-identical;
 * a refused write has no effect; the final drain returns exactly the rest.
 */
#include "os_base.h"
#include <qb/qbrb.h>
#include "ringbuffer_int.h"
#include "rb_common.h"
#include "vsched.h"

const char *verif_property = "C01";
const char *verif_class_names[] = { "switch_inside_write", "switch_inside_read", "wrapped", "refused_write", "empty_read", "semaphore",
	"no_semaphore", "marker_payload", "two_step_write", "peek_reclaim", "short_buffer", "read_inflight_chunk", "enumerated", NULL };
enum { K_SWW, K_SWR, K_WRAP, K_REFUSED, K_EMPTY, K_SEM, K_NOSEM, K_MARKER, K_TWOSTEP, K_PEEK, K_SHORT, K_INFLIGHT, K_ENUM };
const char *verif_rule =
	"case = ring size (1 page real size), semaphore on/off, writer script (<= 12 writes: one-call write or alloc + word-wise fill with yields + commit; lengths 0..S incl. odd), "
	"reader script (<= 24 ops: read with big/small buffer, peek + word-wise compare with yields + reclaim; timeout 0), and a schedule: one choice per yield point "
	"(instrumented load/store of the shared header/data, semaphore op); thorough/quick also enumerate every schedule with <= 2 preemptions of 9 fixed 2+2-op scripts. "
	"non-trivial = >= 1 context switch strictly inside a libqb call on EACH side AND (write position wrapped OR a write was refused OR a read found the ring empty); "
	"distinct = hash of scripts and effective schedule trace";
int verif_fork_per_case = 1;
int verif_case_timeout_ms = 20000;
int verif_hang_is_violation = 0;
size_t verif_max_size = 900;
size_t verif_min_size = 24;

#define MAXOPS 32
struct wop { uint8_t two_step; uint32_t len; uint8_t kind, salt; };
struct rop { uint8_t kind; /* 0 read big, 1 read small, 2 peek+reclaim */ uint8_t small_by; };
enum { ST_NONE, ST_INFLIGHT, ST_OK, ST_REFUSED };
struct attempt { uint32_t len; uint8_t kind, salt; int status; int consumed; };

static struct wop WS[MAXOPS]; static int nws;
static struct rop RS[MAXOPS]; static int nrs;
static struct attempt AT[MAXOPS]; static int nat;	/* attempts in order */
static int nread;					/* chunks handed to the reader so far */
static qb_ringbuffer_t *RBW, *RBR;
static struct verif_report *R;
static int SEM, wraps, refused, empties, sw_w, sw_r, inflight_reads;
static uint8_t *wbuf, *rbuf, *ebuf;
static size_t BUFCAP = 3 * 4096;

void verif_init(void) { wbuf = malloc(BUFCAP); rbuf = malloc(BUFCAP + 64); ebuf = malloc(BUFCAP); }

/* index (into AT) of the k-th attempt that is not refused */
static int kth_live(int k)
{
	for (int i = 0; i < nat; i++) {
		if (AT[i].status == ST_REFUSED) continue;
		if (k-- == 0) return i;
	}
	return -1;
}

static void reader_got(const void *data, ssize_t n, const char *what)
{
	int i = kth_live(nread);
	VLOG(R, "   reader: %s -> %zd bytes (expects chunk #%d; read_pt %u write_pt %u)\n", what, n, i, RBR->shared_hdr->read_pt, RBR->shared_hdr->write_pt);
	if (i < 0) { VFAIL(R, "phantom-chunk", "%s returned a chunk of %zd bytes but every write so far was already consumed (not written at all / returned twice)", what, n); return; }
	struct attempt *a = &AT[i];
	if (a->status == ST_INFLIGHT) { inflight_reads++; }
	if ((size_t)n != a->len) { VFAIL(R, "chunk-length", "%s returned %zd bytes, chunk #%d was written with %u", what, n, i, a->len); return; }
	rb_fill_payload(ebuf, a->len, i, a->kind, a->salt);
	if (memcmp(ebuf, data, a->len)) {
		size_t k; const uint8_t *g = data;
		for (k = 0; k < a->len && g[k] == ebuf[k]; k++) ;
		VFAIL(R, "chunk-bytes", "%s: chunk #%d (len %u) differs at byte %zu: got %02x want %02x (torn, damaged or stale)", what, i, a->len, k, g[k], ebuf[k]);
		return;
	}
	a->consumed = 1;
	nread++;
}

static void writer_fn(void *arg)
{
	(void)arg;
	for (int k = 0; k < nws && !R->fail; k++) {
		struct wop *w = &WS[k];
		struct attempt *a = &AT[nat];
		a->len = w->len; a->kind = w->kind; a->salt = w->salt; a->consumed = 0; a->status = ST_INFLIGHT;
		int idx = nat++;
		rb_fill_payload(wbuf, w->len, idx, w->kind, w->salt);
		uint32_t wp0 = RBW->shared_hdr->write_pt;
		unsigned s0 = sched_switches_in_call(0);
		ssize_t rc;
		sched_enter_call();
		if (!w->two_step) {
			rc = qb_rb_chunk_write(RBW, wbuf, w->len);
		} else {
			uint8_t *p = qb_rb_chunk_alloc(RBW, w->len);
			if (!p) rc = -errno;
			else {
				for (size_t off = 0; off < w->len; off += 4) {	/* word-wise fill, the reader may run in between */
					size_t m = w->len - off < 4 ? w->len - off : 4;
					memcpy(p + off, wbuf + off, m);
					sched_yield_point();
				}
				rc = qb_rb_chunk_commit(RBW, w->len);
				if (rc == 0) rc = w->len;
			}
		}
		sched_leave_call();
		if (sched_switches_in_call(0) != s0) sw_w++;
		VLOG(R, "   writer: #%d %s(%u) -> %zd (write_pt %u -> %u, read_pt %u)\n", idx, w->two_step ? "alloc+commit" : "write", w->len, rc, wp0, RBW->shared_hdr->write_pt, RBW->shared_hdr->read_pt);
		if (rc == (ssize_t)w->len) {
			a->status = ST_OK;
			if (RBW->shared_hdr->write_pt < wp0) wraps++;
		} else if (rc == -EAGAIN) {
			refused++;
			if (a->consumed) { VFAIL(R, "refused-write-visible", "write #%d was refused (-EAGAIN) but the reader had already been handed that chunk", idx); return; }
			a->status = ST_REFUSED;
		} else {
			VFAIL(R, "write-return", "write #%d of %u bytes returned %zd", idx, w->len, rc); return;
		}
	}
}

static void reader_fn(void *arg)
{
	(void)arg;
	for (int k = 0; k < nrs && !R->fail; k++) {
		struct rop *o = &RS[k];
		unsigned s0 = sched_switches_in_call(1);
		if (o->kind <= 1) {
			size_t cap = BUFCAP;
			if (o->kind == 1) {	/* a buffer smaller than the head chunk, if one is known to be there */
				int i = kth_live(nread);
				if (i >= 0 && AT[i].status == ST_OK && AT[i].len > 0) cap = AT[i].len - 1 - (o->small_by % AT[i].len) % 8;
			}
			memset(rbuf + cap, 0xC3, 8);
			sched_enter_call();
			ssize_t rc = qb_rb_chunk_read(RBR, rbuf, cap, 0);
			sched_leave_call();
			if (sched_switches_in_call(1) != s0) sw_r++;
			if (rbuf[cap] != 0xC3) { VFAIL(R, "read-overflow", "read wrote beyond the caller's %zu-byte buffer", cap); return; }
			if (rc >= 0) {
				if (cap != BUFCAP && (size_t)rc > cap) { VFAIL(R, "read-overflow", "read returned %zd into a %zu-byte buffer", rc, cap); return; }
				reader_got(rbuf, rc, "read");
			} else if (rc == -ENOBUFS) {
				if (cap == BUFCAP) { VFAIL(R, "enobufs", "read returned -ENOBUFS for a %zu-byte buffer", cap); return; }
			} else empties++;
		} else {
			void *p = NULL;
			sched_enter_call();
			ssize_t rc = qb_rb_chunk_peek(RBR, &p, 0);
			sched_leave_call();
			if (rc > 0 || (rc == 0 && p)) {
				/* compare word by word, letting the writer run in between: an unread chunk must not be damaged */
				int i = kth_live(nread);
				if (i >= 0 && (size_t)rc == AT[i].len) {
					for (size_t off = 0; off < (size_t)rc; off += 4) {
						size_t m = (size_t)rc - off < 4 ? (size_t)rc - off : 4;
						memcpy(rbuf + off, (uint8_t *)p + off, m);
						sched_yield_point();
					}
					reader_got(rbuf, rc, "peek");
				} else reader_got(p, rc, "peek");
				if (R->fail) return;
				sched_enter_call();
				qb_rb_chunk_reclaim(RBR);
				sched_leave_call();
			} else empties++;
			if (sched_switches_in_call(1) != s0) sw_r++;
		}
	}
}

/* ---- fixed small scripts for the enumerator: (writer lens, reader kinds) */
struct escript { uint32_t wl[2]; uint8_t wtwo[2]; uint8_t rk[2]; uint32_t prefill; };
#define NES 9
static const struct escript ES[NES] = {
	{ { 5, 9 }, { 0, 0 }, { 0, 0 }, 0 },		/* empty ring, two small writes, two reads */
	{ { 8, 0 }, { 1, 0 }, { 2, 0 }, 0 },		/* alloc+commit vs peek+reclaim */
	{ { 13, 4 }, { 0, 1 }, { 2, 2 }, 0 },
	{ { 2000, 2000 }, { 0, 0 }, { 0, 0 }, 1 },	/* ring holding one 2000-byte chunk: second write refused or after the read */
	{ { 2033, 7 }, { 0, 0 }, { 0, 2 }, 1 },
	{ { 1500, 1500 }, { 0, 0 }, { 0, 0 }, 2 },	/* write position wraps */
	{ { 1201, 3 }, { 1, 0 }, { 2, 0 }, 2 },
	{ { 0, 1 }, { 0, 0 }, { 0, 1 }, 0 },		/* zero-length chunk, short buffer */
	/* nearly full and wrapped: the writer is 28 words behind the reader, whose head chunk ends the ring (read_pt 1010 -> 2); the first write fits only after two reads */
	{ { 200, 3 }, { 0, 0 }, { 0, 0 }, 3 },
};
#define ENUM_YMAX 260	/* upper bound on yield points of a 2+2 script */

size_t verif_enum_count(const char *tier)
{
	/* per script and mode: no preemption (1) + one preemption (Y) + two (Y*(Y-1)/2) */
	size_t Y = !strcmp(tier, "thorough") ? ENUM_YMAX : 120;
	return NES * 2 * (1 + Y + Y * (Y - 1) / 2);
}
size_t verif_enum_case(size_t idx, uint8_t *buf, size_t cap)
{
	size_t Y = verif_tier_thorough() ? ENUM_YMAX : 120;
	size_t per = 1 + Y + Y * (Y - 1) / 2;
	size_t sm = idx / per, k = idx % per;
	uint16_t p1 = 0xffff, p2 = 0xffff;
	if (k >= 1 && k <= Y) p1 = k - 1;
	else if (k > Y) {
		k -= 1 + Y;
		/* k-th pair (a<b) in lexicographic order */
		size_t a = 0;
		while (k >= Y - 1 - a) { k -= Y - 1 - a; a++; }
		p1 = a; p2 = a + 1 + k;
	}
	if (cap < 8) return 0;
	buf[0] = 0xFE; buf[1] = sm / 2; buf[2] = sm % 2;
	memcpy(buf + 3, &p1, 2); memcpy(buf + 5, &p2, 2);
	return 7;
}

int verif_case(const uint8_t *data, size_t size, struct verif_report *r)
{
	struct vr v; vr_init(&v, data, size);
	static unsigned counter;
	char name[64];
	uint8_t forced[16]; size_t nforced = 0; int enumerated = 0;
	int64_t S;
	uint32_t prefill = 0;
	R = r;
	nws = nrs = nat = nread = wraps = refused = empties = sw_w = sw_r = inflight_reads = 0;

	if (size >= 7 && data[0] == 0xFE) {	/* ---- enumerated small-scope case */
		const struct escript *e = &ES[data[1] % NES];
		uint16_t p1, p2; memcpy(&p1, data + 3, 2); memcpy(&p2, data + 5, 2);
		enumerated = 1; SEM = data[2] & 1; S = 4000; prefill = e->prefill;
		for (int i = 0; i < 2; i++) { WS[nws++] = (struct wop){ e->wtwo[i], e->wl[i], PAY_KEYED, (uint8_t)i }; RS[nrs++] = (struct rop){ e->rk[i], 1 }; }
		if (p1 != 0xffff) { uint32_t at = p1 + 1; memcpy(forced + nforced, &at, 4); forced[nforced + 4] = 0xFF; nforced += 5; }
		if (p2 != 0xffff) { uint32_t at = p2 + 1; memcpy(forced + nforced, &at, 4); forced[nforced + 4] = 0xFF; nforced += 5; }
		VCLASS(r, K_ENUM);
		vop(r, 0xE01, data[1] * 2 + SEM, ((uint32_t)p1 << 16) | p2);
	} else {			/* ---- generated case */
		SEM = vr_bool(&v);
		S = (int64_t[]){ 4000, 4076, 4083, 2000, 4096 - 13, 3000 }[vr_u8(&v) % 6];
		prefill = vr_u8(&v) % 3;
		nws = 1 + vr_u8(&v) % 12; nrs = 1 + vr_u8(&v) % 24;
		for (int i = 0; i < nws; i++) {
			unsigned lk = vr_u8(&v) % 8; uint32_t len;
			switch (lk) {
			case 0: len = vr_u8(&v) % 40; break;
			case 1: len = S / 3 + vr_u8(&v) % 9; break;
			case 2: len = S / 2 + vr_u8(&v) % 9 - 4; break;
			case 3: len = S - vr_u8(&v) % 30; break;
			case 4: len = 1000 + vr_u8(&v); break;
			case 5: len = vr_u16(&v) % (S + 1); break;
			case 6: len = 0; break;
			default: len = 1 + vr_u8(&v) % 7; break;
			}
			WS[i] = (struct wop){ (uint8_t)(vr_u8(&v) % 3 == 0), len, (uint8_t)(vr_u8(&v) % PAY_KINDS), (uint8_t)vr_u8(&v) };
			if (WS[i].two_step && len > 64 && vr_bool(&v)) WS[i].len = len = 4 + len % 61;	/* keep word-wise fills short */
			vop(r, 1 + WS[i].two_step, len, WS[i].kind | (WS[i].salt << 8));
		}
		for (int i = 0; i < nrs; i++) {
			unsigned k = vr_u8(&v) % 8;
			RS[i].kind = k <= 3 ? 0 : k == 4 ? 1 : 2; RS[i].small_by = vr_u8(&v);
			vop(r, 3 + RS[i].kind, RS[i].small_by, 0);
		}
		sched_set_threshold((unsigned[]){ 250, 240, 224, 192 }[vr_u8(&v) % 4]);
	}
	uint32_t flags = QB_RB_FLAG_SHARED_PROCESS | (SEM ? 0 : QB_RB_FLAG_NO_SEMAPHORE);
	snprintf(name, sizeof name, "vc01-%d-%u", (int)getpid(), counter++);
	RBW = qb_rb_open(name, (size_t)S, flags | QB_RB_FLAG_CREATE, 0);
	if (!RBW) { r->inconclusive = 1; return 0; }
	RBR = qb_rb_open(name, (size_t)S, flags, 0);
	if (!RBR) { qb_rb_close(RBW); r->inconclusive = 1; return 0; }
	size_t real = RBW->shared_hdr->word_size * 4;
	/* stale bytes must never look like data: poison the whole data area */
	memset(RBW->shared_data, 0xEE, real);
	/* move the pointers off zero and leave history behind: prefill chunks written and consumed sequentially */
	if (enumerated && prefill == 3) {
		/* one chunk through the ring to move both pointers to word 1010, then three chunks that stay: 56 bytes (words 1010..2), 1800 bytes (2..454), 2100 bytes (454..981) */
		static const uint32_t pl[4] = { 4032, 56, 1800, 2100 };
		for (uint32_t i = 0; i < 4; i++) {
			int keep = i > 0;
			rb_fill_payload(wbuf, pl[i], keep ? (uint32_t)nat : 1000 + i, PAY_KEYED, i);
			if (qb_rb_chunk_write(RBW, wbuf, pl[i]) != (ssize_t)pl[i]) { r->inconclusive = 1; break; }
			if (!keep) { if (qb_rb_chunk_read(RBR, rbuf, BUFCAP, 0) != (ssize_t)pl[i]) { r->inconclusive = 1; break; } }
			else AT[nat++] = (struct attempt){ pl[i], PAY_KEYED, (uint8_t)i, ST_OK, 0 };
		}
		if (!r->inconclusive && (RBW->shared_hdr->read_pt != 1010 || RBW->shared_hdr->write_pt != 981)) r->inconclusive = 1;	/* the layout this script is about */
		prefill = 0;
	}
	for (uint32_t i = 0; i < prefill; i++) {
		uint32_t len = enumerated ? (prefill == 1 ? 2000 : 1700) : 1100 + 300 * i;
		int keep = enumerated && prefill == 1;	/* this one stays in the ring as chunk #0 */
		rb_fill_payload(wbuf, len, keep ? (uint32_t)nat : 1000 + i, i % 2 ? PAY_MARKER : PAY_FAKEHDR, i);
		if (qb_rb_chunk_write(RBW, wbuf, len) != (ssize_t)len) { r->inconclusive = 1; break; }
		if (!keep) { if (qb_rb_chunk_read(RBR, rbuf, BUFCAP, 0) != (ssize_t)len) { r->inconclusive = 1; break; } }
		else { AT[nat++] = (struct attempt){ len, i % 2 ? PAY_MARKER : PAY_FAKEHDR, (uint8_t)i, ST_OK, 0 }; }
	}
	if (r->inconclusive) { qb_rb_close(RBR); qb_rb_close(RBW); return 0; }
	VLOG(r, "%s S=%lld %s prefill=%u writer:", enumerated ? "enumerated" : "generated", (long long)S, SEM ? "semaphore" : "no-semaphore", prefill);
	for (int i = 0; i < nws; i++) VLOG(r, " %s(%u)", WS[i].two_step ? "alloc+commit" : "write", WS[i].len);
	VLOG(r, " reader:");
	for (int i = 0; i < nrs; i++) VLOG(r, " %s", RS[i].kind == 0 ? "read" : RS[i].kind == 1 ? "read-small" : "peek+reclaim");
	VLOG(r, "\n");

	sched_region_clear();
	sched_region_add(RBW->shared_hdr, sizeof(struct qb_ringbuffer_shared_s));
	sched_region_add(RBR->shared_hdr, sizeof(struct qb_ringbuffer_shared_s));
	sched_region_add(RBW->shared_data, real * 2);
	sched_region_add(RBR->shared_data, real * 2);
	void (*fn[2])(void *) = { writer_fn, reader_fn };
	void *arg[2] = { NULL, NULL };
	int rc = sched_run(2, fn, arg, enumerated ? NULL : &v, enumerated ? forced : NULL, nforced, 6000);
	VLOG(r, "schedule: %lu yield points, %lu switches; writer calls preempted %d, reader calls preempted %d; wraps %d refused %d empty reads %d, chunks read before the write returned %d\n",
	     sched_yields(), sched_switches(), sw_w, sw_r, wraps, refused, empties, inflight_reads);
	if (rc < 0 && !r->fail) r->inconclusive = 1;
	r->ophash = vmix(r->ophash, sched_trace());

	/* ---- final drain: exactly the successful writes not yet read, then nothing */
	if (!r->fail && !r->inconclusive) {
		for (int guard = 0; guard < MAXOPS + 4 && !r->fail; guard++) {
			ssize_t n = qb_rb_chunk_read(RBR, rbuf, BUFCAP, 0);
			if (n < 0) break;
			reader_got(rbuf, n, "drain");
		}
		if (!r->fail && kth_live(nread) >= 0)
			VFAIL(r, "lost-chunk", "chunk #%d was written successfully but never came out (reader got %d chunks)", kth_live(nread), nread);
	}
	if (SEM) VCLASS(r, K_SEM); else VCLASS(r, K_NOSEM);
	if (sw_w) VCLASS(r, K_SWW);
	if (sw_r) VCLASS(r, K_SWR);
	if (wraps) VCLASS(r, K_WRAP);
	if (refused) VCLASS(r, K_REFUSED);
	if (empties) VCLASS(r, K_EMPTY);
	if (inflight_reads) VCLASS(r, K_INFLIGHT);
	for (int i = 0; i < nws; i++) { if (WS[i].kind == PAY_MARKER || WS[i].kind == PAY_FAKEHDR) VCLASS(r, K_MARKER); if (WS[i].two_step) VCLASS(r, K_TWOSTEP); }
	for (int i = 0; i < nrs; i++) { if (RS[i].kind == 2) VCLASS(r, K_PEEK); if (RS[i].kind == 1) VCLASS(r, K_SHORT); }
	r->nontrivial = sw_w && sw_r && (wraps || refused || empties);
	qb_rb_close(RBR);
	qb_rb_close(RBW);
	return 0;
}
