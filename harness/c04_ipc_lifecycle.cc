/*
 * C04 - IPC server callbacks: accept, created, msg*, closed (repeated while it returns non-zero),
 * destroyed - exactly once, after every reference is gone, nothing afterwards; no use of freed state.
 * In-process client(s) + server (see ipc_common.h); oracle: a per-connection automaton + ASan.
 */
#include "ipc_common.h"
#include <map>

const char *verif_property = "C04";
const char *verif_class_names[] = { "app_ref_outlives_peer", "closed_retry", "destroy_with_live_connections", "disconnect_inside_msg_process", "disconnect_inside_created",
	"disconnect_inside_closed", "accept_refused", "abrupt_client_close", "list_walk", "rate_limit_change", "connect_abandoned", "destroy_with_retry_job_pending", "shm", "socket", "send_inside_callback", "send_on_closing_connection", "list_walk_or_rate_limit_inside_callback", NULL };
enum { K_REFOUT, K_RETRY, K_DESTROYLIVE, K_DISCMSG, K_DISCCREATED, K_DISCCLOSED, K_REFUSED, K_ABRUPT, K_WALK, K_RATE, K_ABANDON, K_DESTROYJOB, K_SHM, K_SOCK, K_SENDCB, K_SENDCLOSING, K_WALKCB };
const char *verif_rule =
	"case = transport and an op list: client connect (complete / abandoned after the first half), client disconnect, abrupt client close, requests, server-side disconnect from outside and from "
	"inside each callback, extra connection references held across later ops, closed returning non-zero r times (re-run through job_add, run when the case says), accept refusing, rate-limit "
	"changes, connection list walks, service destruction with connections alive, then draining; non-trivial = an application reference outlives the peer, or a closed retry, or destruction with "
	"a live connection; distinct = hash of the decoded op list";
int verif_fork_per_case = 1;
int verif_case_timeout_ms = 20000;
int verif_hang_is_violation = 1;
size_t verif_max_size = 300;
size_t verif_min_size = 12;

enum { ST_ACCEPTED, ST_REFUSED, ST_CREATED, ST_CLOSING, ST_DESTROYED };
struct mconn { qb_ipcs_connection_t *p; int st; int app_refs; int closed_calls; int closed_retries_left; int msgs; bool closed_final; int id; bool disc_in_created; int client; };
static std::vector<mconn> MC;		/* every connection ever accepted */
static struct verif_report *R;
static struct vr V;
static qb_ipcs_service_t *S;
static bool service_destroyed, nontriv;
static int in_callback;
static uint8_t *sbuf;
struct cli { qb_ipcc_connection_t *c; bool half; int fd; };
static std::vector<cli> CL;

static mconn *find_live(qb_ipcs_connection_t *c) { for (auto it = MC.rbegin(); it != MC.rend(); ++it) if (it->p == c && it->st != ST_DESTROYED) return &*it; return NULL; }

/* iterating the connection list (the documented way) or changing the rate limit - both touch every listed connection - from inside a callback */
static void walk_inside(const char *where, qb_ipcs_connection_t *self)
{
	if (service_destroyed) return;
	unsigned k = vr_u8(&V) % 6;
	if (k == 0) {
		int n = 0; bool saw_self = false;
		qb_ipcs_connection_t *c = qb_ipcs_connection_first_get(S);
		while (c && n < 100) {
			qb_ipcs_connection_t *nx = qb_ipcs_connection_next_get(S, c);
			if (c == self) saw_self = true;
			if (!find_live(c) && !R->fail) VFAIL(R, "list-has-dead-connection", "the connection list (walked from inside %s) contains a connection that was already destroyed or never accepted", where);
			qb_ipcs_connection_unref(c);
			c = nx; n++;
		}
		VLOG(R, "    list walk inside %s: %d connection(s)%s\n", where, n, saw_self ? " (incl. this one)" : "");
		VCLASS(R, K_WALKCB);
	} else if (k == 1) {
		static const enum qb_ipcs_rate_limit rl[] = { QB_IPCS_RATE_NORMAL, QB_IPCS_RATE_FAST, QB_IPCS_RATE_SLOW };
		qb_ipcs_request_rate_limit(S, rl[vr_u8(&V) % 3]);
		VLOG(R, "    rate limit changed inside %s\n", where);
		VCLASS(R, K_WALKCB);
	}
}

/* what the application does from inside a callback: any combination of taking a reference, sending, disconnecting, dropping a reference (in that order) */
static void maybe_disconnect_inside(mconn *m, int where)
{
	unsigned k = vr_u8(&V), k2 = vr_u8(&V);
	int id = m->id;
	qb_ipcs_connection_t *c = m->p;
	if ((k & 3) == 0 && m->app_refs < 3) {
		qb_ipcs_connection_ref(c); m->app_refs++;
		VLOG(R, "    application takes a reference on conn %d inside the callback\n", id);
	}
	if (((k >> 2) & 3) == 0) {
		struct qb_ipc_response_header h; h.id = 5; h.size = sizeof h; h.error = m->client;
		ssize_t x = qb_ipcs_event_send(c, &h, sizeof h);
		VLOG(R, "    event send from inside the callback -> %zd\n", x);
		VCLASS(R, K_SENDCB);
	}
	if (k2 % 7 == 0) {
		VLOG(R, "    qb_ipcs_disconnect from inside the callback (conn %d)\n", id);
		if (where == K_DISCCREATED) m->disc_in_created = true;
		VCLASS(R, where);
		qb_ipcs_disconnect(c);
	}
	m = &MC[id];
	if (((k >> 4) & 3) == 0 && m->app_refs > 0 && m->st != ST_DESTROYED) {
		m->app_refs--;
		VLOG(R, "    application drops a reference on conn %d inside the callback (%d left)\n", id, m->app_refs);
		qb_ipcs_connection_unref(c);
	}
}

static int32_t s_accept(qb_ipcs_connection_t *c, uid_t u, gid_t g)
{
	(void)u; (void)g;
	in_callback++;
	if (find_live(c)) VFAIL(R, "accept-on-live-connection", "connection_accept called for a connection object that is still alive");
	int refuse = vr_u8(&V) % 6 == 0;
	MC.push_back(mconn{ c, refuse ? ST_REFUSED : ST_ACCEPTED, 0, 0, 0, 0, false, (int)MC.size(), false, -1 });
	VLOG(R, "  [cb] accept conn %d -> %s\n", MC.back().id, refuse ? "refuse" : "ok");
	if (refuse) VCLASS(R, K_REFUSED);
	in_callback--;
	return refuse ? -EACCES : 0;
}
static void s_created(qb_ipcs_connection_t *c)
{
	in_callback++;
	mconn *m = find_live(c);
	VLOG(R, "  [cb] created conn %d\n", m ? m->id : -1);
	if (!m) VFAIL(R, "created-unknown", "connection_created for a connection that was never accepted (or already destroyed)");
	else if (m->st != ST_ACCEPTED) VFAIL(R, "created-order", "connection_created for conn %d in state %d (must follow a successful accept, once)", m->id, m->st);
	else { m->st = ST_CREATED; m->closed_retries_left = vr_u8(&V) % 4 == 0 ? 1 + vr_u8(&V) % 3 : 0; maybe_disconnect_inside(m, K_DISCCREATED); }
	in_callback--;
}
static int32_t s_msg(qb_ipcs_connection_t *c, void *data, size_t size)
{
	(void)size;
	in_callback++;
	mconn *m = find_live(c);
	if (m && m->client < 0) m->client = ((struct qb_ipc_request_header *)data)->id - 100;
	VLOG(R, "  [cb] msg_process conn %d\n", m ? m->id : -1);
	if (!m) VFAIL(R, "msg-after-destroyed", "msg_process for a connection that was already destroyed (or never accepted)");
	else if (m->st != ST_CREATED) VFAIL(R, "msg-order", "msg_process for conn %d in state %d (only between created and closed)", m->id, m->st);
	else { m->msgs++; walk_inside("msg_process", c); maybe_disconnect_inside(m, K_DISCMSG); }
	in_callback--;
	return 0;
}
static int32_t s_closed(qb_ipcs_connection_t *c)
{
	in_callback++;
	mconn *m = find_live(c);
	int rc = 0;
	if (!m) VFAIL(R, "closed-after-destroyed", "connection_closed for a connection that was already destroyed (or never accepted)");
	else if (m->st != ST_CREATED && m->st != ST_CLOSING) VFAIL(R, "closed-order", "connection_closed for conn %d which was never reported as created (state %d)", m->id, m->st);
	else if (m->closed_final) VFAIL(R, "closed-again", "connection_closed for conn %d called again after it had returned 0", m->id);
	else {
		m->st = ST_CLOSING; m->closed_calls++;
		if (m->closed_retries_left > 0) { m->closed_retries_left--; rc = -EAGAIN; VCLASS(R, K_RETRY); nontriv = true; }
		else m->closed_final = true;
		walk_inside("connection_closed", c);
		maybe_disconnect_inside(m, K_DISCCLOSED);
	}
	VLOG(R, "  [cb] closed conn %d -> %d\n", m ? m->id : -1, rc);
	in_callback--;
	return rc;
}
static void s_destroyed(qb_ipcs_connection_t *c)
{
	in_callback++;
	mconn *m = find_live(c);
	VLOG(R, "  [cb] destroyed conn %d\n", m ? m->id : -1);
	if (!m) VFAIL(R, "destroyed-twice", "connection_destroyed for a connection that was already destroyed (or never accepted)");
	else {
		if (m->app_refs > 0) VFAIL(R, "destroyed-with-references", "connection_destroyed for conn %d while the application still holds %d reference(s)", m->id, m->app_refs);
		/* a connection that the application itself disconnects before connection_created has returned is torn down as an incomplete one:
		   the statement only says closed is never invoked without created, not the converse for this corner */
		else if (m->st == ST_CREATED && !m->disc_in_created) VFAIL(R, "destroyed-without-closed", "connection_destroyed for conn %d which was created but never closed", m->id);
		else if (m->st == ST_CLOSING && !m->closed_final) VFAIL(R, "destroyed-before-closed-done", "connection_destroyed for conn %d although connection_closed has not returned 0 yet", m->id);
		m->st = ST_DESTROYED;
		walk_inside("connection_destroyed", c);
	}
	in_callback--;
}


/* everything a client finds in its event and response queues must have been sent on its own connection
   (the server stamps the client index it learnt from the first request into every header; -1 = not learnt yet) */
static void client_drain(size_t idx)
{
	cli &x = CL[idx];
	if (!x.c || x.half) return;
	for (int i = 0; i < 400 && !R->fail; i++) {
		struct qb_ipc_response_header h;
		ssize_t n = qb_ipcc_event_recv(x.c, sbuf, 70000, 0);
		if (n < (ssize_t)sizeof h) break;
		memcpy(&h, sbuf, sizeof h);
		VLOG(R, "client %zu: event received: %zd bytes, id %d size %d error %d\n", idx, n, h.id, h.size, h.error);
		if (h.error != -1 && h.error != (int)idx) VFAIL(R, "event-for-other-client", "client %zu received an event (id %d) the server sent on the connection of client %d", idx, h.id, h.error);
	}
	for (int i = 0; i < 400 && !R->fail; i++) {
		struct qb_ipc_response_header h;
		ssize_t n = qb_ipcc_recv(x.c, sbuf, 70000, 0);
		if (n < (ssize_t)sizeof h) break;
		memcpy(&h, sbuf, sizeof h);
		if (h.error != -1 && h.error != (int)idx) VFAIL(R, "response-for-other-client", "client %zu received a response (id %d) the server sent on the connection of client %d", idx, h.id, h.error);
	}
}

/* the server retries connect() to a vanished client ten times 100 ms apart (ipc_socket.c:_finish_connecting): waiting adds nothing to the check */
extern "C" int __wrap_usleep(useconds_t us) { (void)us; return 0; }

extern "C" void verif_init(void) { sbuf = (uint8_t *)malloc(70000); }

static void drop_app_refs(mconn &m)
{
	while (m.app_refs > 0 && m.st != ST_DESTROYED) { m.app_refs--; VLOG(R, "application drops a reference on conn %d\n", m.id); qb_ipcs_connection_unref(m.p); }
}

extern "C" int verif_case(const uint8_t *data, size_t size, struct verif_report *r)
{
	vr_init(&V, data, size);
	R = r; DISP.clear(); JOBS.clear(); MC.clear(); CL.clear(); service_destroyed = nontriv = false; in_callback = 0;
	enum qb_ipc_type type = vr_bool(&V) ? QB_IPC_SHM : QB_IPC_SOCKET;
	VCLASS(r, type == QB_IPC_SHM ? K_SHM : K_SOCK);
	std::string name = ipc_name();
	struct qb_ipcs_service_handlers sh = { s_accept, s_created, s_msg, s_closed, s_destroyed };
	S = qb_ipcs_create(name.c_str(), 0, type, &sh);
	if (!S) { r->inconclusive = 1; return 0; }
	qb_ipcs_poll_handlers_set(S, &POLLH);
	if (qb_ipcs_run(S) != 0) { r->inconclusive = 1; return 0; }
	VLOG(r, "%s transport\n", type == QB_IPC_SHM ? "shm" : "socket");
	vop(r, 0xC04, type, 0);

	while (!vr_eof(&V) && !r->fail) {
		unsigned op = vr_u8(&V) % 32, arg = vr_u8(&V);
		vop(r, op, arg, 0);
		if (op <= 4 && !service_destroyed && CL.size() < 6) {	/* connect */
			int fd = -1;
			qb_ipcc_connection_t *c = qb_ipcc_connect_async(name.c_str(), 0, &fd);
			if (!c) continue;
			if (arg % 6 == 0) { CL.push_back(cli{ c, true, fd }); VLOG(r, "client %zu: connect started, not completed\n", CL.size() - 1); VCLASS(r, K_ABANDON); continue; }
			for (int i = 0; i < 50; i++) { struct pollfd p = { fd, POLLIN, 0 }; if (poll(&p, 1, 0) > 0) break; if (!server_step(0, false)) break; }
			int rc = qb_ipcc_connect_continue(c);
			VLOG(r, "client %zu: connect -> %d\n", CL.size(), rc);
			if (rc == 0) CL.push_back(cli{ c, false, fd }); else CL.push_back(cli{ NULL, false, -1 });
		}
		else if (op <= 7 && !CL.empty()) {			/* client disconnects (or gives up a half-made connection) */
			cli &x = CL[arg % CL.size()];
			if (!x.c) continue;
			VLOG(r, "client %zu: %s\n", (size_t)(&x - &CL[0]), x.half ? "abandons the half-made connection" : "disconnect");
			if (x.half) { int rc = qb_ipcc_connect_continue(x.c); if (rc == 0) qb_ipcc_disconnect(x.c); }
			else { client_drain(&x - &CL[0]); qb_ipcc_disconnect(x.c); }
			x.c = NULL;
		}
		else if (op == 8 && !CL.empty()) {			/* abrupt: the client's socket goes away without the protocol */
			cli &x = CL[arg % CL.size()];
			if (!x.c || x.half) continue;
			VLOG(r, "client %zu: socket shut down abruptly\n", (size_t)(&x - &CL[0]));
			shutdown(x.fd, SHUT_RDWR); VCLASS(r, K_ABRUPT);
		}
		else if (op <= 12 && !CL.empty()) {			/* a request */
			cli &x = CL[arg % CL.size()];
			if (!x.c || x.half) continue;
			struct qb_ipc_request_header *h = (struct qb_ipc_request_header *)sbuf; h->id = 100 + (int)(&x - &CL[0]); h->size = 64;
			ssize_t rc = qb_ipcc_send(x.c, sbuf, 64);
			VLOG(r, "client %zu: send -> %zd\n", (size_t)(&x - &CL[0]), rc);
		}
		else if (op <= 18) { int did = server_step(arg); VLOG(r, "server step -> %d\n", did); }
		else if (op <= 20 && !MC.empty()) {			/* server disconnects from outside */
			mconn &m = MC[arg % MC.size()];
			if (m.st == ST_DESTROYED || m.st == ST_REFUSED) continue;
			if (m.st == ST_ACCEPTED) continue;	/* not yet handed to the application */
			VLOG(r, "server: qb_ipcs_disconnect(conn %d)\n", m.id);
			qb_ipcs_disconnect(m.p);
		}
		else if (op == 21 && !MC.empty()) {			/* application takes a reference */
			mconn &m = MC[arg % MC.size()];
			if (m.st != ST_CREATED || m.app_refs >= 3) continue;
			qb_ipcs_connection_ref(m.p); m.app_refs++;
			VLOG(r, "application takes a reference on conn %d (%d)\n", m.id, m.app_refs);
		}
		else if (op == 22 && !MC.empty()) {			/* ... and drops one */
			mconn &m = MC[arg % MC.size()];
			if (m.app_refs <= 0 || m.st == ST_DESTROYED) continue;
			if (m.st == ST_CLOSING || service_destroyed) { VCLASS(r, K_REFOUT); nontriv = true; }
			m.app_refs--;
			VLOG(r, "application drops a reference on conn %d (%d left, state %d)\n", m.id, m.app_refs, m.st);
			qb_ipcs_connection_unref(m.p);
		}
		else if (op == 26 && !MC.empty()) {			/* the application sends on a connection it knows (created, or one it holds a reference on) */
			mconn &m = MC[arg % MC.size()];
			if (m.st == ST_DESTROYED || !(m.st == ST_CREATED || m.app_refs > 0)) continue;
			struct qb_ipc_response_header h; h.id = 7; h.size = sizeof h; h.error = m.client;
			ssize_t x = (arg & 64) ? qb_ipcs_response_send(m.p, &h, sizeof h) : qb_ipcs_event_send(m.p, &h, sizeof h);
			VLOG(r, "server: %s send on conn %d (state %d) -> %zd\n", (arg & 64) ? "response" : "event", m.id, m.st, x);
			if (m.st == ST_CLOSING) VCLASS(r, K_SENDCLOSING);
		}
		else if (op == 23 && !service_destroyed) {		/* walk the connection list the documented way */
			int n = 0;
			qb_ipcs_connection_t *c = qb_ipcs_connection_first_get(S);
			while (c && n < 100) {
				qb_ipcs_connection_t *nx = qb_ipcs_connection_next_get(S, c);
				mconn *m = find_live(c);
				if (!m) { VFAIL(r, "list-has-dead-connection", "the connection list contains a connection that was already destroyed or never accepted"); }
				qb_ipcs_connection_unref(c);
				c = nx; n++;
			}
			VLOG(r, "list walk: %d connections\n", n); VCLASS(r, K_WALK);
		}
		else if (op == 24 && !service_destroyed) { static const enum qb_ipcs_rate_limit rl[] = { QB_IPCS_RATE_OFF, QB_IPCS_RATE_NORMAL, QB_IPCS_RATE_FAST, QB_IPCS_RATE_SLOW, QB_IPCS_RATE_OFF_2 }; qb_ipcs_request_rate_limit(S, rl[arg % 5]); VCLASS(r, K_RATE); VLOG(r, "rate limit %u\n", arg % 5); }
		else if (op == 25 && !service_destroyed && arg % 3 == 0) {	/* destroy the service with whatever is alive */
			bool live = false; for (auto &m : MC) if (m.st == ST_CREATED || m.st == ST_CLOSING) live = true;
			if (live) { VCLASS(r, K_DESTROYLIVE); nontriv = true; }
			if (!JOBS.empty()) VCLASS(r, K_DESTROYJOB);
			VLOG(r, "qb_ipcs_destroy (%zu queued job(s))\n", JOBS.size());
			qb_ipcs_destroy(S); service_destroyed = true;
		}
	}
	/* ---- wind down: clients go away, the service is destroyed, queued jobs run, application references are dropped */
	if (!r->fail) {
		for (size_t i = 0; i < CL.size(); i++) client_drain(i);
		for (auto &x : CL) if (x.c) { if (x.half) { if (qb_ipcc_connect_continue(x.c) == 0) qb_ipcc_disconnect(x.c); } else qb_ipcc_disconnect(x.c); x.c = NULL; }
		server_drain(500);
		if (!service_destroyed) { VLOG(r, "qb_ipcs_destroy (final)\n"); qb_ipcs_destroy(S); service_destroyed = true; }
		server_drain(500);
		for (auto &m : MC) if (!r->fail) { if (m.app_refs > 0 && m.st != ST_DESTROYED) { VCLASS(r, K_REFOUT); nontriv = true; } drop_app_refs(m); }
		server_drain(500);
		for (auto &m : MC) if (!r->fail && m.st != ST_DESTROYED) { VFAIL(r, "never-destroyed", "conn %d (state %d) was accepted but connection_destroyed never came, although peers, service and references are gone", m.id, m.st); break; }
	}
	r->nontrivial = nontriv;
	return 0;
}
