/*
 * C14 - blackbox serialisation: decode(encode(fmt, args)) == printf(fmt, args), and neither side
 * writes beyond its buffer.  Formats come from a grammar over the supported conversions, the
 * arguments are passed through a genuine variadic call.  Both buffers are heap blocks of exactly
 * the stated size, so ASan sees a one-byte overrun.
 */
#include <string>
#include <vector>
#include <cmath>
#include <climits>
#include <cstdarg>
extern "C" {
#include "os_base.h"
#include <qb/qblog.h>
#include "log_int.h"
#include "verif.h"
}

const char *verif_property = "C14";
const char *verif_class_names[] = { "mixed_classes", "precision_or_star", "encoder_limit_hit", "decoder_limit_hit", "exact_fit_encoder", "string_arg",
	"null_string", "percent_in_string", "long_literal", "extreme_int", "special_double", "length_modifier", "many_flags", "roundtrip_compared", "extended_marker", NULL };
enum { K_MIXED, K_PREC, K_ENCLIM, K_DECLIM, K_EXACT, K_STR, K_NULLSTR, K_PCTSTR, K_LONGLIT, K_EXTINT, K_SPECDBL, K_LENMOD, K_FLAGS, K_CMP };
const char *verif_rule =
	"case = format from a grammar over d i o u x X c s p e E f F g G a A %% with flags # - + space 0 ', width/precision as digits or *, length modifiers l ll z t j, "
	"0-7 conversions with literal text between them (sometimes longer than the decoder buffer), matching argument values (extreme ints, +-0, inf, nan, denormals, empty/long/NULL "
	"strings, strings containing %), encoder limit and decoder limit drawn independently from 1..4096 (biased to the sizes needed +-2); "
	"non-trivial = >= 2 conversions of different classes AND (a precision or * is present OR the output exceeds one of the two limits); distinct = hash of (format, argument values, limits)";
int verif_fork_per_case = 0;
int verif_case_timeout_ms = 20000;
int verif_hang_is_violation = 0;
size_t verif_max_size = 200;
size_t verif_min_size = 6;

struct Arg { bool fp; long l; double d; };

/* ---- variadic sinks */
static size_t ser_sink(char *buf, size_t max, const char *fmt, ...)
{
	va_list ap; va_start(ap, fmt);
	size_t rc = qb_vsnprintf_serialize(buf, max, fmt, ap);
	va_end(ap);
	return rc;
}
static int ref_sink(char *buf, size_t max, const char *fmt, ...)
{
	va_list ap; va_start(ap, fmt);
	int rc = vsnprintf(buf, max, fmt, ap);
	va_end(ap);
	return rc;
}

/* turn the runtime argument list into a real variadic call (integer class args travel as long, x86-64 SysV) */
template <typename F, typename... A>
static auto call_with(F f, const std::vector<Arg> &args, size_t i, A... a) -> decltype(f(a...))
{
	if constexpr (sizeof...(A) >= 9) { return f(a...); }
	else {
		if (i == args.size()) return f(a...);
		if (args[i].fp) return call_with(f, args, i + 1, a..., args[i].d);
		return call_with(f, args, i + 1, a..., args[i].l);
	}
}

/* remove the given flag characters from the flag part of a conversion spec ("%<flags><width>.<precision>") only */
static void strip_flags(std::string &spec, const char *which)
{
	size_t i = 1;
	while (i < spec.size() && strchr("-+# 0'", spec[i])) {
		if (strchr(which, spec[i])) spec.erase(i, 1); else i++;
	}
}

extern "C" void verif_init(void) {}

static std::string LONGSTR;

extern "C" int verif_case(const uint8_t *data, size_t size, struct verif_report *r)
{
	struct vr v; vr_init(&v, data, size);
	std::string fmt, reffmt;
	std::vector<Arg> args, refargs;
	std::vector<std::string> keep;	/* string storage */
	keep.reserve(16);
	size_t need = 0;		/* bytes of argument data the encoder must store */
	int classes = 0; bool has_prec = false;
	int nconv = vr_u8(&v) % 8;
	static const char *lits[] = { "", " ", "x=", "abc ", ": ", "[", "] ", "100%% ", "\t", "value ", "-" };
	if (LONGSTR.empty()) LONGSTR.assign(700, 'A');

	auto literal = [&]() {
		unsigned k = vr_u8(&v) % 16;
		if (k == 15) { size_t n = 300 + vr_u16(&v) % 500; fmt.append(n, 'L'); reffmt.append(n, 'L'); VCLASS(r, K_LONGLIT); }
		else if (k == 14) { fmt += "100%% "; reffmt += "100%% "; need += 1; }
		else { const char *l = lits[k % 11]; fmt += l; reffmt += l; if (k % 11 == 7) need += 1; }
	};
	literal();
	for (int c = 0; c < nconv && args.size() < 8; c++) {
		std::string spec = "%";
		unsigned fl = vr_u8(&v);
		int nflags = 0;
		if (fl & 1) { spec += '-'; nflags++; }
		if (fl & 2) { spec += '+'; nflags++; }
		if (fl & 4) { spec += '#'; nflags++; }
		if ((fl & 24) == 24) { spec += ' '; nflags++; }
		if ((fl & 96) == 96) { spec += '0'; nflags++; }
		if ((fl & 0x83) == 0x83) { spec += '\''; nflags++; }
		if (nflags >= 3) VCLASS(r, K_FLAGS);
		std::vector<Arg> star;	/* * arguments come before the value */
		unsigned w = vr_u8(&v) % 8;
		if (w == 1) spec += std::to_string(vr_u8(&v) % 30);
		else if (w == 2) spec += std::to_string(vr_u16(&v) % 600);
		else if (w == 3 && args.size() + star.size() < 6) { spec += '*'; star.push_back(Arg{ false, (long)(int)(vr_u8(&v) % 50) - 10, 0 }); has_prec = true; }
		unsigned pr = vr_u8(&v) % 8; long prec_digits = -1; bool prec_star = false;
		if (pr == 1) { prec_digits = vr_u8(&v) % 12; spec += "." + std::to_string(prec_digits); has_prec = true; }
		else if (pr == 2) { prec_digits = vr_u16(&v) % 400; spec += "." + std::to_string(prec_digits); has_prec = true; }
		else if (pr == 3 && args.size() + star.size() < 6) { spec += ".*"; prec_star = true; star.push_back(Arg{ false, (long)(int)(vr_u8(&v) % 40) - 3, 0 }); has_prec = true; }
		unsigned conv = vr_u8(&v) % 20;
		static const char intconv[] = "diouxX";
		std::string rspec = spec;	/* reference spec (identical, kept separate for clarity) */
		if (conv <= 7) {		/* integers */
			unsigned lm = vr_u8(&v) % 8; const char *mod = ""; int bytes = 4;
			if (lm == 1) { mod = "l"; bytes = 8; } else if (lm == 2) { mod = "ll"; bytes = 8; } else if (lm == 3) { mod = "z"; bytes = 8; }
			else if (lm == 4) { mod = "t"; bytes = 8; } else if (lm == 5) { mod = "j"; bytes = 8; }
			if (*mod) VCLASS(r, K_LENMOD);
			char cch = intconv[conv % 6];
			if ((cch == 'd' || cch == 'i' || cch == 'u') == false) strip_flags(spec, "'");	/* ' flag only applies to decimal */
			long val;
			switch (vr_u8(&v) % 8) {
			case 0: val = 0; break; case 1: val = -1; break; case 2: val = bytes == 4 ? INT_MAX : LONG_MAX; VCLASS(r, K_EXTINT); break;
			case 3: val = bytes == 4 ? INT_MIN : LONG_MIN; VCLASS(r, K_EXTINT); break; case 4: val = (long)vr_u32(&v); break;
			case 5: val = (long)vr_u64(&v); break; default: val = vr_u8(&v); break;
			}
			if (bytes == 4) val = (long)(int)val;
			spec += mod; spec += cch; rspec = spec;
			for (auto &s : star) { args.push_back(s); need += 4; }
			args.push_back(Arg{ false, val, 0 }); need += bytes;
			classes |= 1;
		} else if (conv <= 11) {	/* doubles */
			static const char dconv[] = "eEfFgGaA";
			double val;
			switch (vr_u8(&v) % 10) {
			case 0: val = 0.0; break; case 1: val = -0.0; VCLASS(r, K_SPECDBL); break; case 2: val = INFINITY; VCLASS(r, K_SPECDBL); break;
			case 3: val = -INFINITY; VCLASS(r, K_SPECDBL); break; case 4: val = NAN; VCLASS(r, K_SPECDBL); break; case 5: val = 4.9406564584124654e-324; VCLASS(r, K_SPECDBL); break;
			case 6: val = 1.7976931348623157e308; break; case 7: val = (double)(int)vr_u32(&v) / 1000.0; break;
			default: { uint64_t b = vr_u64(&v); memcpy(&val, &b, 8); if (std::isnan(val)) val = 1.5; } break;
			}
			if (vr_u8(&v) % 4 == 0) { spec += 'l'; VCLASS(r, K_LENMOD); }	/* %lf is %f */
			spec += dconv[vr_u8(&v) % 8]; rspec = spec;
			for (auto &s : star) { args.push_back(s); need += 4; }
			args.push_back(Arg{ true, 0, val }); need += 8;
			classes |= 2;
		} else if (conv <= 13) {	/* char */
			size_t q;
			strip_flags(spec, "#0+ '");
			if ((q = spec.find('.')) != std::string::npos) { spec.erase(q); if (prec_star) star.pop_back(); }
			spec += 'c'; rspec = spec;
			for (auto &s : star) { args.push_back(s); need += 4; }
			args.push_back(Arg{ false, (long)(33 + vr_u8(&v) % 90), 0 }); need += 1;
			classes |= 4;
		} else if (conv <= 17) {	/* string */
			size_t q;
			strip_flags(spec, "#0+ '");
			std::string sv; bool isnull = false;
			switch (vr_u8(&v) % 10) {
			case 0: sv = ""; break; case 1: sv = "hello"; break; case 2: sv = "50% off %d %s"; VCLASS(r, K_PCTSTR); break;
			case 3: sv = LONGSTR.substr(0, 300); break; case 4: sv = LONGSTR; break; case 5: isnull = true; sv = "(null)"; VCLASS(r, K_NULLSTR); break;
			case 6: sv = LONGSTR.substr(0, vr_u16(&v) % 600); break;
			default: sv.assign(1 + vr_u8(&v) % 20, 'a' + vr_u8(&v) % 26); break;
			}
			keep.push_back(sv);
			spec += 's'; rspec = spec;
			for (auto &s : star) { args.push_back(s); need += 4; }
			args.push_back(Arg{ false, isnull ? 0 : (long)(intptr_t)keep.back().c_str(), 0 });
			/* the encoder stores at most 'precision' characters when the precision is given as digits (> 0) */
			size_t stored = sv.size();
			if (prec_digits > 0 && (size_t)prec_digits < stored) stored = prec_digits;
			need += stored + 1;
			VCLASS(r, K_STR);
			classes |= 8;
		} else if (conv == 18) {	/* pointer */
			size_t q;
			strip_flags(spec, "#0+ '");
			if ((q = spec.find('.')) != std::string::npos) { spec.erase(q); if (prec_star) star.pop_back(); }
			spec += 'p'; rspec = spec;
			for (auto &s : star) { args.push_back(s); need += 4; }
			args.push_back(Arg{ false, (long)(vr_u8(&v) % 3 == 0 ? 0 : vr_u64(&v)), 0 }); need += 8;
			classes |= 16;
		} else {			/* %% */
			spec = "%%"; rspec = spec; need += 1;
		}
		fmt += spec; reffmt += rspec;
		literal();
	}
	/* the extended-information marker: first \a becomes '|', or is cut off if it ends the format */
	switch (vr_u8(&v) % 24) {
	case 0: fmt += "\a"; VCLASS(r, 14); break;
	case 1: fmt += "\aext=1"; reffmt += "|ext=1"; VCLASS(r, 14); break;
	default: break;
	}
	/* reference arguments: NULL strings are rendered as "(null)" */
	refargs = args;
	{
		/* walk the format again to find %s positions is unnecessary: NULL (0) only ever appears for %s args with isnull */
		size_t ki = 0;
		for (size_t i = 0; i < refargs.size(); i++) {
			(void)ki;
		}
	}
	std::vector<Arg> ra = args;
	{	/* replace NULL string args: they are exactly the args whose kept string is "(null)" marker with l == 0 and a %s conversion;
		   track by re-scanning conversions in order */
		size_t ai = 0; const char *p = fmt.c_str();
		while (*p) {
			if (*p != '%') { p++; continue; }
			p++;
			if (*p == '%') { p++; continue; }
			while (*p && strchr("-+# 0'123456789.*lztj", *p)) { if (*p == '*') ai++; p++; }
			if (*p == 's' && ai < ra.size() && ra[ai].l == 0) ra[ai].l = (long)(intptr_t)"(null)";
			if (*p) { ai++; p++; }
		}
	}
	size_t fmtlen = fmt.size();
	if (fmtlen && fmt.find('\a') == fmtlen - 1) fmtlen--;	/* a trailing marker is cut off by the encoder */
	size_t total_need = fmtlen + 1 + need;
	/* reference text */
	static char *ref = NULL; static size_t refcap = 0;
	int reflen = call_with([&](auto... a) { return ref_sink(NULL, 0, reffmt.c_str(), a...); }, ra, 0);
	if (reflen < 0) { r->inconclusive = 1; return 0; }
	if ((size_t)reflen + 1 > refcap) { refcap = reflen + 64; ref = (char *)realloc(ref, refcap); }
	call_with([&](auto... a) { return ref_sink(ref, refcap, reffmt.c_str(), a...); }, ra, 0);

	/* limits: biased to the interesting neighbourhood */
	size_t max_len, str_len;
	switch (vr_u8(&v) % 6) {
	case 0: max_len = total_need + (int)(vr_u8(&v) % 5) - 2; break;
	case 1: max_len = 512; break;
	case 2: max_len = 1 + vr_u16(&v) % 4096; break;
	case 3: max_len = fmtlen + (int)(vr_u8(&v) % 7) - 2; break;
	default: max_len = total_need + 1 + vr_u8(&v); break;
	}
	switch (vr_u8(&v) % 6) {
	case 0: str_len = (size_t)reflen + 1 + (int)(vr_u8(&v) % 5) - 2; break;
	case 1: str_len = 512; break;
	case 2: str_len = 1 + vr_u16(&v) % 4096; break;
	case 3: str_len = 1 + vr_u8(&v) % 16; break;
	default: str_len = (size_t)reflen + 2 + vr_u8(&v); break;
	}
	if ((ssize_t)max_len < 1) max_len = 1;
	if (max_len > 4096) max_len = 4096;
	if ((ssize_t)str_len < 1) str_len = 1;
	if (str_len > 4096) str_len = 4096;

	uint64_t h = vhash_bytes(fmt.data(), fmt.size());
	for (auto &a : args) { uint64_t bits; if (a.fp) memcpy(&bits, &a.d, 8); else bits = (uint64_t)a.l; h = vmix(h, bits); }
	vop(r, h, max_len, str_len);
	VLOG(r, "fmt=\"%.200s\"%s nargs=%zu need=%zu (fmt %zu + data %zu) max_len=%zu str_len=%zu printf_len=%d\n", fmt.c_str(), fmt.size() > 200 ? "..." : "", args.size(), total_need, fmtlen + 1, need, max_len, str_len, reflen);

	char *enc = (char *)malloc(max_len);
	memset(enc, 0x7e, max_len);
	size_t rc = call_with([&](auto... a) { return ser_sink(enc, max_len, fmt.c_str(), a...); }, args, 0);
	VLOG(r, "serialize -> %zu\n", rc);
	if (rc > max_len) { VFAIL(r, "encoder-length", "serialize returned %zu for a %zu-byte buffer", rc, max_len); free(enc); return 0; }
	if (total_need < max_len) {
		if (rc != total_need) { VFAIL(r, "encoder-size", "record needs %zu bytes (format %zu + arguments %zu), fits in %zu, but serialize returned %zu", total_need, fmtlen + 1, need, max_len, rc); free(enc); return 0; }
	} else {
		VCLASS(r, K_ENCLIM);
		if (rc < max_len && rc < total_need) {
			/* claims to be complete although it cannot be: the decoder would read arguments that were never stored */
			VFAIL(r, "encoder-incomplete", "record needs %zu bytes, limit %zu, serialize returned %zu (< limit, i.e. reported as complete)", total_need, max_len, rc); free(enc); return 0;
		}
	}
	if (total_need + 1 == max_len || total_need == max_len) VCLASS(r, K_EXACT);
	if (rc < max_len) {	/* complete record: decode it */
		char *dec = (char *)malloc(str_len);
		memset(dec, 0x7e, str_len);
		size_t dl = qb_vsnprintf_deserialize(dec, str_len, enc);
		VLOG(r, "deserialize -> %zu\n", dl);
		if (!memchr(dec, 0, str_len)) { VFAIL(r, "decoder-unterminated", "decoded text is not NUL-terminated within the %zu-byte buffer", str_len); }
		else if ((size_t)reflen < str_len) {
			VCLASS(r, K_CMP);
			if (strcmp(dec, ref)) {
				size_t k = 0; while (dec[k] && dec[k] == ref[k]) k++;
				VFAIL(r, "roundtrip-differs", "decoded text differs from printf at offset %zu: decoded \"%.40s\" printf \"%.40s\"", k, dec + (k > 10 ? k - 10 : 0), ref + (k > 10 ? k - 10 : 0));
			}
		} else VCLASS(r, K_DECLIM);
		free(dec);
	}
	free(enc);
	int ncls = __builtin_popcount(classes);
	if (ncls >= 2) VCLASS(r, K_MIXED);
	if (has_prec) VCLASS(r, K_PREC);
	r->nontrivial = ncls >= 2 && (has_prec || total_need >= max_len || (size_t)reflen >= str_len);
	return 0;
}
