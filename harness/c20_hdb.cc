/*
 * C20 - handle database: stale handles rejected, refcount = 1 + gets - puts,
 * destructor exactly once, iteration visits exactly the non-destroyed objects.
 * Oracle: slot/generation model run in lock step.
 */
#include <vector>
#include <map>
#include <set>
extern "C" {
#include "os_base.h"
#include <qb/qbhdb.h>
#include "verif.h"
void verif_random_reset(uint32_t);
}

const char *verif_property = "C20";
const char *verif_class_names[] = { "slot_reused", "stale_after_reuse", "destroy_with_refs", "bogus_handle", "iterate",
	"over_put_free", "second_destroy", "stale_put", "many_slots", "create_without_memory", NULL };
enum { K_REUSE, K_STALE_REUSE, K_DESTROY_REFS, K_BOGUS, K_ITER, K_OVERPUT, K_DESTROY2, K_STALEPUT, K_MANY, K_NOMEM };
const char *verif_rule =
	"case = op list over 3 handle databases (declared with destructor / created without / created then given a destructor): "
	"create, get, put, destroy, refcount_get, iterate, applied to live handles, dead handles, copies with a wrong check word, "
	"slots beyond the count and negative slots; non-trivial = a slot was reused while a stale copy of its previous handle was used "
	"afterwards AND some destroy happened with outstanding references; distinct = hash of decoded op list";
int verif_fork_per_case = 0;
int verif_case_timeout_ms = 20000;
int verif_hang_is_violation = 0;
size_t verif_max_size = 400;
size_t verif_min_size = 6;

struct mslot { bool occ = false, pending = false; int refs = 0; uint32_t check = 0; void *inst = nullptr; uint32_t objid = 0; int size = 0; };
struct mdb { struct qb_hdb db; std::vector<mslot> slots; bool has_dtor; };

static std::vector<void *> dtor_calls;
static void my_dtor(void *inst) { dtor_calls.push_back(inst); }

struct hrec { int db; qb_handle_t h; bool ever_valid; uint32_t objid; };

/* allocations beyond 256 MiB fail (allocator_may_return_null is set by the driver): a create of INT32_MAX bytes returns -ENOMEM at once */
extern "C" const char *__asan_default_options(void) { return "max_allocation_size_mb=256:allocator_may_return_null=1"; }
extern "C" void verif_init(void) {}

extern "C" int verif_case(const uint8_t *data, size_t size, struct verif_report *r)
{
	struct vr v; vr_init(&v, data, size);
	mdb D[3];
	std::vector<hrec> pool;
	uint32_t next_obj = 1;
	bool reuse_seen = false, stale_after_reuse = false, destroy_refs = false;
	std::set<std::pair<int, uint32_t>> reused_slots;	/* (db, slot) that were reused */

	verif_random_reset(vr_u8(&v));
	dtor_calls.clear();
	/* db0: QB_HDB_DECLARE style */
	memset(&D[0].db, 0, sizeof D[0].db); D[0].db.first_run = QB_TRUE; D[0].db.destructor = my_dtor; D[0].has_dtor = true;
	qb_hdb_create(&D[1].db); D[1].has_dtor = false;
	qb_hdb_create(&D[2].db); D[2].db.destructor = my_dtor; D[2].has_dtor = true;

	while (!vr_eof(&v) && !r->fail) {
		unsigned op = vr_u8(&v) % 16;
		int di = vr_u8(&v) % 3;
		mdb &M = D[di];
		dtor_calls.clear();
		if (op == 3 && !pool.empty() && vr_u8(&v) % 4 == 0) {	/* ---- a create that cannot get its memory: must fail cleanly and change nothing */
			qb_handle_t h = 0;
			int rc = qb_hdb_handle_create(&M.db, INT32_MAX, &h);
			vop(r, 9, di, 0);
			VLOG(r, "db%d create size=INT32_MAX -> rc=%d\n", di, rc);
			if (rc == 0) { VFAIL(r, "huge-create-succeeded", "qb_hdb_handle_create of a 2 GiB instance returned 0 although the allocator refuses such sizes here"); break; }
			VCLASS(r, K_NOMEM);
			continue;
		}
		if (op <= 3 || pool.empty()) {		/* ---- create */
			int sz = 8 + vr_u8(&v) % 57;
			qb_handle_t h = 0;
			int rc = qb_hdb_handle_create(&M.db, sz, &h);
			vop(r, 1, di, sz);
			uint32_t slot = (uint32_t)(h & 0xffffffffu), check = (uint32_t)(h >> 32);
			VLOG(r, "db%d create size=%d -> rc=%d handle=%08x:%u\n", di, sz, rc, check, slot);
			if (rc != 0) { VFAIL(r, "create-failed", "create returned %d", rc); break; }
			if ((int32_t)check <= 0) { VFAIL(r, "create-check", "check word %d not positive", (int32_t)check); break; }
			if (slot > M.slots.size()) { VFAIL(r, "create-slot", "slot %u skips beyond count %zu", slot, M.slots.size()); break; }
			if (slot == M.slots.size()) M.slots.push_back(mslot());
			mslot &s = M.slots[slot];
			if (s.occ) { VFAIL(r, "slot-reused-while-live", "create handed out slot %u which still holds object %u (refs %d)", slot, s.objid, s.refs); break; }
			for (auto &p : pool) if (p.db == di && (uint32_t)(p.h & 0xffffffffu) == slot) { reuse_seen = true; VCLASS(r, K_REUSE); reused_slots.insert({di, slot}); }
			/* random() never repeats here (interposed), so a new handle that equals one issued before would make the old copies valid again */
			for (auto &p : pool) if (p.db == di && p.h == h) { VFAIL(r, "stale-handle-revived", "create handed out handle %08x:%u again: every copy of the destroyed object's handle resolves to the new object", check, slot); break; }
			if (r->fail) break;
			void *inst = nullptr;
			rc = qb_hdb_handle_get(&M.db, h, &inst);
			if (rc != 0 || !inst) { VFAIL(r, "fresh-get", "get on a fresh handle returned %d", rc); break; }
			for (int i = 0; i < sz; i++) if (((uint8_t *)inst)[i]) { VFAIL(r, "instance-not-zeroed", "new instance byte %d not zero", i); break; }
			if (r->fail) break;
			memcpy(inst, &next_obj, 4);
			rc = qb_hdb_handle_put(&M.db, h);
			if (rc != 0) { VFAIL(r, "fresh-put", "put after fresh get returned %d", rc); break; }
			s = mslot(); s.occ = true; s.refs = 1; s.check = check; s.inst = inst; s.objid = next_obj; s.size = sz;
			pool.push_back({di, h, true, next_obj}); next_obj++;
			if (M.slots.size() > 33) VCLASS(r, K_MANY);
			continue;
		}
		if (op == 15) {				/* ---- iterate */
			std::set<uint32_t> want, got;
			for (auto &s : M.slots) if (s.occ && !s.pending) want.insert(s.objid);
			qb_hdb_iterator_reset(&M.db);
			void *inst; qb_handle_t h; int guard = 0;
			vop(r, 9, di, 0);
			while (qb_hdb_iterator_next(&M.db, &inst, &h) == 0 && guard++ < 100000) {
				uint32_t slot = (uint32_t)(h & 0xffffffffu), id = 0;
				if (slot >= M.slots.size() || !M.slots[slot].occ || M.slots[slot].pending) { VFAIL(r, "iter-visits-dead", "iteration returned slot %u which holds no live object", slot); break; }
				memcpy(&id, inst, 4);
				if (inst != M.slots[slot].inst || id != M.slots[slot].objid) { VFAIL(r, "iter-wrong-instance", "iteration slot %u: instance of object %u expected %u", slot, id, M.slots[slot].objid); break; }
				if (!got.insert(id).second) { VFAIL(r, "iter-duplicate", "object %u visited twice", id); break; }
				if ((uint32_t)(h >> 32) != M.slots[slot].check) { VFAIL(r, "iter-handle", "iteration returned a handle with a wrong check word"); break; }
				if (qb_hdb_handle_refcount_get(&M.db, h) != M.slots[slot].refs + 1) { VFAIL(r, "iter-refcount", "iteration did not take exactly one reference"); break; }
				if (qb_hdb_handle_put(&M.db, h) != 0) { VFAIL(r, "iter-put", "put after iteration failed"); break; }
			}
			VLOG(r, "db%d iterate -> %zu objects (model %zu)\n", di, got.size(), want.size());
			if (!r->fail && got != want) VFAIL(r, "iter-set", "iteration visited %zu objects, model has %zu non-destroyed", got.size(), want.size());
			VCLASS(r, K_ITER);
			continue;
		}
		/* ---- op on a handle from the pool, possibly mutated */
		hrec hr = pool[vr_u16(&v) % pool.size()];
		unsigned mut = vr_u8(&v) % 16;
		qb_handle_t h = hr.h;
		int dbi = hr.db;
		if (mut == 12) h ^= (qb_handle_t)1 << (32 + vr_u8(&v) % 31);			/* wrong check */
		else if (mut == 13) h = (h & 0xffffffff00000000ULL) | (uint32_t)(D[dbi].slots.size() + vr_u8(&v) % 40);	/* beyond count */
		else if (mut == 14) h = (h & 0xffffffff00000000ULL) | (0x80000000u | vr_u8(&v));	/* negative slot */
		else if (mut == 15) dbi = (dbi + 1) % 3;						/* right handle, other database */
		else if (mut == 11) h &= 0xffffffffULL;						/* never issued: check word 0 (issued ones are > 0) */
		mdb &T = D[dbi];
		if (mut >= 11) VCLASS(r, K_BOGUS);
		uint32_t slot = (uint32_t)(h & 0xffffffffu), check = (uint32_t)(h >> 32);
		mslot *s = (slot < T.slots.size()) ? &T.slots[slot] : nullptr;
		bool valid = s && s->occ && s->check == check;
		if (!valid && s && reused_slots.count({dbi, slot}) && s->occ) { stale_after_reuse = true; VCLASS(r, K_STALE_REUSE); }
		/* snapshot of everything else, to show a refused op has no effect */
		int rc; void *inst = (void *)0x1; const char *name = "?";
		void *expect_dtor = nullptr; bool expect_free = false;
		if (op <= 7) {			/* get */
			name = "get";
			rc = qb_hdb_handle_get(&T.db, h, &inst);
			bool ok = valid && !s->pending;
			if (ok) {
				if (rc != 0) VFAIL(r, "get-refused", "get on a live handle returned %d", rc);
				else if (inst != s->inst) VFAIL(r, "get-wrong-instance", "get returned a different instance");
				else { uint32_t id; memcpy(&id, inst, 4); if (id != s->objid) VFAIL(r, "get-wrong-object", "instance holds object %u, expected %u", id, s->objid); }
				s->refs++;
			} else if (rc == 0) {
				VFAIL(r, valid ? "get-after-destroy" : "stale-handle-accepted", "get on a %s handle succeeded", valid ? "destroyed (pending)" : "stale/never-issued");
			} else if (inst != nullptr) VFAIL(r, "get-instance-on-error", "failed get left a non-NULL instance pointer");
		} else if (op <= 10) {		/* put */
			name = "put";
			if (valid) { if (s->refs == 1) { expect_free = true; expect_dtor = s->inst; if (!s->pending) VCLASS(r, K_OVERPUT); } }
			else VCLASS(r, K_STALEPUT);
			rc = qb_hdb_handle_put(&T.db, h);
			if (valid) {
				if (rc != 0) VFAIL(r, "put-refused", "put on a handle with %d references returned %d", s->refs, rc);
				s->refs--;
			} else if (rc == 0) VFAIL(r, "stale-handle-accepted", "put on a stale/never-issued handle succeeded");
		} else if (op <= 12) {		/* destroy */
			name = "destroy";
			if (valid) {
				if (s->pending) VCLASS(r, K_DESTROY2);
				if (s->refs > 1) { destroy_refs = true; VCLASS(r, K_DESTROY_REFS); }
				if (s->refs == 1) { expect_free = true; expect_dtor = s->inst; }
			}
			rc = qb_hdb_handle_destroy(&T.db, h);
			if (valid) {
				if (rc == 0) { s->pending = true; s->refs--; }
				else if (!s->pending) VFAIL(r, "destroy-refused", "destroy on a live handle returned %d", rc);
				else { expect_free = false; expect_dtor = nullptr; }	/* second destroy refused: allowed, no effect */
			} else if (rc == 0) VFAIL(r, "stale-handle-accepted", "destroy on a stale/never-issued handle succeeded");
		} else {			/* refcount */
			name = "refcount";
			rc = qb_hdb_handle_refcount_get(&T.db, h);
			if (valid) { if (rc != s->refs) VFAIL(r, "refcount", "refcount_get returned %d, model says %d (1 + gets - puts)", rc, s->refs); }
			else if (rc >= 0) VFAIL(r, "stale-handle-accepted", "refcount_get on a stale/never-issued handle returned %d", rc);
		}
		vop(r, 2 + op, (uint64_t)dbi << 32 | slot, (uint64_t)mut << 8 | valid);
		VLOG(r, "db%d %s %08x:%d%s -> %d\n", dbi, name, check, (int32_t)slot, valid ? (s->pending ? " [valid,destroy-pending]" : " [valid]") : " [stale/bogus]", rc);
		if (r->fail) break;
		/* destructor accounting */
		if (expect_free && s->refs == 0) {
			if (T.has_dtor) {
				if (dtor_calls.size() != 1 || dtor_calls[0] != expect_dtor) { VFAIL(r, "destructor-count", "count reached zero: destructor ran %zu times (expected once for this object)", dtor_calls.size()); break; }
			}
			s->occ = false; s->pending = false; s->inst = nullptr;
		} else if (!dtor_calls.empty()) {
			VFAIL(r, "destructor-unexpected", "destructor ran %zu time(s) although no count reached zero", dtor_calls.size()); break;
		}
		/* everything else unchanged: all live objects still resolve with the modelled count */
		for (int d = 0; d < 3 && !r->fail; d++) for (size_t i = 0; i < D[d].slots.size(); i++) {
			mslot &o = D[d].slots[i];
			if (!o.occ) continue;
			qb_handle_t oh = ((uint64_t)o.check << 32) | (uint32_t)i;
			int rcount = qb_hdb_handle_refcount_get(&D[d].db, oh);
			if (rcount != o.refs) { VFAIL(r, "collateral-damage", "after %s: object %u in db%d slot %zu reports refcount %d, model %d", name, o.objid, d, i, rcount, o.refs); break; }
			uint32_t id; memcpy(&id, o.inst, 4);
			if (id != o.objid) { VFAIL(r, "collateral-damage", "after %s: instance of object %u overwritten", name, o.objid); break; }
		}
	}
	/* tear down: drop every remaining reference, each destructor must run exactly once */
	for (int d = 0; d < 3 && !r->fail; d++) for (size_t i = 0; i < D[d].slots.size() && !r->fail; i++) {
		mslot &o = D[d].slots[i];
		if (!o.occ) continue;
		qb_handle_t oh = ((uint64_t)o.check << 32) | (uint32_t)i;
		dtor_calls.clear();
		while (o.refs > 0) {
			if (qb_hdb_handle_put(&D[d].db, oh) != 0) { VFAIL(r, "put-refused", "teardown put refused with %d refs left", o.refs); break; }
			o.refs--;
			if (o.refs > 0 && !dtor_calls.empty()) { VFAIL(r, "destructor-early", "destructor ran with %d references left", o.refs); break; }
		}
		if (!r->fail && D[d].has_dtor && dtor_calls.size() != 1) VFAIL(r, "destructor-count", "teardown: destructor ran %zu times", dtor_calls.size());
		void *inst;
		if (!r->fail && qb_hdb_handle_get(&D[d].db, oh, &inst) == 0) VFAIL(r, "stale-handle-accepted", "get succeeded after the last put");
	}
	for (int d = 0; d < 3; d++) if (D[d].db.handles) qb_hdb_destroy(&D[d].db);	/* a declared-but-never-used database owns nothing */
	r->nontrivial = reuse_seen && stale_after_reuse && destroy_refs;
	return 0;
}
