/*
 * C08 - the event loop runs every job, timer, fd and signal callback exactly as registered.
 *
 * A case is a PROGRAM FOR THE LOOP: initial registrations plus, for every callback invocation, a short
 * action list taken from the case (add job/timer/fd/signal, delete by handle - own, other, already
 * fired, stale, slot reused -, poll_mod, write/drain a pipe, close an fd and open a new one with the same
 * number, raise a signal, stop).  Descriptors are real pipes on the real epoll instance; time is virtual
 * (clock_gettime and epoll_wait are interposed), so a case is a pure function of its bytes.
 * Oracle: a reference model of the registrations, checked inside every callback and at quiescence.
 */
#include <vector>
#include <deque>
#include <string>
#include <signal.h>
#include <poll.h>
extern "C" {
#include "os_base.h"
#include <qb/qbloop.h>
#include "verif.h"
#include "vclock.h"
#include "vepoll.h"
void verif_random_reset(uint32_t);
}

const char *verif_property = "C08";
const char *verif_class_names[] = { "delete_of_queued_item", "stale_handle_after_slot_reuse", "callback_deletes_itself", "fd_number_reused", "signal_delivered",
	"signal_deleted_while_queued", "fd_self_remove_by_return", "job_deleted_while_waiting", "timer_deleted_pending", "stop_from_callback", "poll_mod", "many_items", "double_add_refused", "signal_mod", "signal_mod_priority_while_queued", "signal_mod_number", "signal_moved_while_queued_then_deleted", NULL };
enum { K_DELQ, K_STALE, K_SELF, K_FDREUSE, K_SIG, K_SIGDELQ, K_FDRET, K_JOBDEL, K_TMRDEL, K_STOP, K_MOD, K_MANY, K_DOUBLEADD, K_SIGMOD, K_SIGMODQ, K_SIGMODNUM, K_SIGMODDEL };
const char *verif_rule =
	"case = initial registrations + an action list consumed by every callback invocation (add job/timer/fd/signal at a priority, delete own/other/fired/stale handles, poll_mod, "
	"write/drain pipes, close + reopen an fd number + re-add, raise, stop), <= 300 callback invocations, virtual time; non-trivial = a delete of an item that was already queued for dispatch, "
	"or a slot / fd-number reuse followed by use of the old handle, or a callback deleting itself; distinct = hash of the decoded program";
int verif_fork_per_case = 1;
int verif_case_timeout_ms = 20000;
int verif_hang_is_violation = 1;
size_t verif_max_size = 500;
size_t verif_min_size = 16;

enum { JOB, TIMER, FD, SIG };
struct token { int kind, idx; };
struct mjob { int prio; int st; /* 0 waiting 1 ran 2 deleted */ };
struct mtimer { qb_loop_timer_handle h; int prio; int st; /* 0 pending 1 fired 2 deleted */ uint64_t due; uint32_t slot; };
struct mfd { int rfd, wfd, prio; bool reg; int bytes; bool ret_neg; int calls; };
struct msig { qb_loop_signal_handle h; int signo, prio; bool reg; int owed; /* raises made while registered, not yet delivered */ int calls; bool ret_nonzero; };

static qb_loop_t *L;
static struct verif_report *R;
static struct vr V;
static std::deque<token> TOK;		/* stable addresses */
static std::deque<mjob> JOBS; static std::deque<mtimer> TIMERS; static std::deque<mfd> FDS; static std::deque<msig> SIGS;	/* deques: references stay valid while callbacks add items */
static std::deque<int> JOBQ[3];		/* waiting jobs per priority, in add order */
static int callbacks, iterations, budget_left, stop_called, in_cb_kind = -1, in_cb_idx = -1;
static bool nontriv, winding_down;
static int outstanding_raises[2];
static int callbacks_at_stop;
static void recompute_outstanding(void);

static token *mk(int kind, int idx) { TOK.push_back(token{ kind, idx }); return &TOK.back(); }
static const char *pname(int p) { return p == QB_LOOP_HIGH ? "HIGH" : p == QB_LOOP_MED ? "MED" : "LOW"; }

static void do_actions(int n);
static void add_fd(int reuse_number);
static void job_cb(void *data);
static void timer_cb(void *data);
static int32_t fd_cb(int32_t fd, int32_t revents, void *data);
static int32_t sig_cb(int32_t sig, void *data);

static void enter(int kind, int idx) { callbacks++; in_cb_kind = kind; in_cb_idx = idx; }
static void leave(void) { in_cb_kind = in_cb_idx = -1; }

static void job_cb(void *data)
{
	token *t = (token *)data; mjob &j = JOBS[t->idx];
	enter(JOB, t->idx);
	VLOG(R, " [it %d] job %d (%s) runs\n", iterations, t->idx, pname(j.prio));
	if (j.st == 1) { VFAIL(R, "job-ran-twice", "job %d ran a second time", t->idx); leave(); return; }
	if (j.st == 2) { VFAIL(R, "callback-after-delete", "job %d ran although qb_loop_job_del had returned 0 for it", t->idx); leave(); return; }
	if (JOBQ[j.prio].empty() || JOBQ[j.prio].front() != t->idx) { VFAIL(R, "job-order", "job %d (%s) ran before job %d which was added earlier at the same priority", t->idx, pname(j.prio), JOBQ[j.prio].empty() ? -1 : JOBQ[j.prio].front()); leave(); return; }
	JOBQ[j.prio].pop_front();
	j.st = 1;
	do_actions(vr_u8(&V) % 4);
	leave();
}
static void timer_cb(void *data)
{
	token *t = (token *)data; mtimer &m = TIMERS[t->idx];
	enter(TIMER, t->idx);
	VLOG(R, " [it %d] timer %d (%s) fires at %llu\n", iterations, t->idx, pname(m.prio), (unsigned long long)vclock_mono());
	if (m.st == 1) { VFAIL(R, "timer-ran-twice", "timer %d fired a second time", t->idx); leave(); return; }
	if (m.st == 2) { VFAIL(R, "callback-after-delete", "timer %d fired although qb_loop_timer_del had returned 0 for it", t->idx); leave(); return; }
	if (vclock_mono() <= m.due) { VFAIL(R, "timer-early", "timer %d fired at %llu, due after %llu", t->idx, (unsigned long long)vclock_mono(), (unsigned long long)m.due); leave(); return; }
	m.st = 1;
	do_actions(vr_u8(&V) % 4);
	leave();
}
static int32_t fd_cb(int32_t fd, int32_t revents, void *data)
{
	token *t = (token *)data; mfd &f = FDS[t->idx];
	enter(FD, t->idx);
	VLOG(R, " [it %d] fd %d (#%d, %s) ready revents=0x%x bytes=%d\n", iterations, fd, t->idx, pname(f.prio), revents, f.bytes);
	if (!f.reg) { VFAIL(R, "callback-after-delete", "callback of fd #%d (descriptor %d) invoked although it is not registered (deleted, or removed itself)", t->idx, fd); leave(); return 0; }
	if (fd != f.rfd) { VFAIL(R, "fd-wrong-descriptor", "callback of fd #%d got descriptor %d, registered %d", t->idx, fd, f.rfd); leave(); return 0; }
	if (f.bytes == 0) { VFAIL(R, "fd-not-ready", "callback of fd #%d invoked although its pipe is empty", t->idx); leave(); return 0; }
	f.calls++;
	/* consume: one byte, or everything */
	int n = (winding_down || vr_bool(&V)) ? f.bytes : 1; char buf[256];
	for (int k = 0; k < n; k++) if (read(f.rfd, buf, 1) == 1) f.bytes--;
	do_actions(vr_u8(&V) % 3);
	int rc = 0;
	/* a negative return removes the registration; it is also what a handler returns after it has already deleted itself (and maybe registered a successor) */
	if (f.ret_neg && !winding_down && vr_u8(&V) % 3 == 0) {
		rc = -1; VCLASS(R, K_FDRET); VLOG(R, "      fd #%d returns -1 (%s)\n", t->idx, f.reg ? "removes itself" : "it had deleted itself already"); f.reg = false;
		/* the usual end-of-file handler: close the descriptor, then return -1; a reconnecting one registers the successor (same number) before it returns */
		unsigned how = vr_u8(&V) % 4;
		if (how <= 1 && f.rfd >= 0) {
			int num = f.rfd, idx = t->idx;
			bool inuse = false; for (size_t q = 0; q < FDS.size(); q++) if ((int)q != idx && FDS[q].rfd == num) inuse = true;
			if (!inuse) {
				close(f.rfd); close(f.wfd); FDS[idx].rfd = FDS[idx].wfd = -1; FDS[idx].bytes = 0;
				VLOG(R, "      (it closed descriptor %d before returning%s)\n", num, how == 0 ? " and registers a successor with the same number" : "");
				if (how == 0 && budget_left > 0) { budget_left--; add_fd(num); VCLASS(R, K_FDREUSE); nontriv = true; }
			}
		}
	}
	leave();
	return rc;
}
static int32_t sig_cb(int32_t sig, void *data)
{
	token *t = (token *)data; msig &s = SIGS[t->idx];
	enter(SIG, t->idx);
	VLOG(R, " [it %d] signal %d handler #%d (%s)\n", iterations, sig, t->idx, pname(s.prio));
	if (!s.reg) { VFAIL(R, "callback-after-delete", "signal handler #%d invoked after qb_loop_signal_del had returned 0 for it", t->idx); leave(); return 0; }
	if (sig != s.signo) { VFAIL(R, "signal-number", "handler #%d for signal %d called with %d", t->idx, s.signo, sig); leave(); return 0; }
	if (s.owed <= 0) { VFAIL(R, "signal-spurious", "signal handler #%d invoked more often than the signal was raised while it was registered", t->idx); leave(); return 0; }
	s.owed--; s.calls++;
	recompute_outstanding();
	VCLASS(R, K_SIG);
	do_actions(vr_u8(&V) % 3);
	leave();
	return 0;
}

static void recompute_outstanding(void)
{
	for (int w = 0; w < 2; w++) { int m = 0; for (auto &s : SIGS) if (s.reg && s.signo == (w ? SIGUSR2 : SIGUSR1) && s.owed > m) m = s.owed; outstanding_raises[w] = m; }
}

static bool model_quiescent(std::string *why)
{
	for (int p = 0; p < 3; p++) if (!JOBQ[p].empty()) { *why = "job " + std::to_string(JOBQ[p].front()) + " never ran"; return false; }
	for (size_t i = 0; i < TIMERS.size(); i++) if (TIMERS[i].st == 0) { *why = "timer " + std::to_string(i) + " never fired"; return false; }
	for (size_t i = 0; i < FDS.size(); i++) if (FDS[i].reg && FDS[i].bytes > 0) { *why = "fd #" + std::to_string(i) + " is registered and readable but its callback does not run"; return false; }
	for (size_t i = 0; i < SIGS.size(); i++) if (SIGS[i].reg && SIGS[i].owed > 0) { *why = "signal handler #" + std::to_string(i) + " was not called for a raised signal"; return false; }
	return true;
}

static void hook(int n_ready, int timeout_ms)
{
	iterations++;
	std::string why;
	bool q = model_quiescent(&why);
	if (budget_left <= 0 && !winding_down) { winding_down = true; VLOG(R, " --- action budget used up, winding down\n"); }
	if (winding_down && q) { if (!stop_called) { stop_called = 1; qb_loop_stop(L); } return; }
	if (iterations > 3000) {
		if (!R->fail) VFAIL(R, "never-dispatched", "after %d loop iterations: %s", iterations, why.c_str());
		stop_called = 1; qb_loop_stop(L); return;
	}
	if (n_ready == 0) {
		if (timeout_ms < 0) {
			if (!q) { if (!R->fail) VFAIL(R, "loop-blocks-forever", "the loop asked to wait forever although %s", why.c_str()); stop_called = 1; qb_loop_stop(L); return; }
			/* idle with budget left: leave the loop, issue some operations from outside, run again */
			stop_called = 3; qb_loop_stop(L); return;
		}
		vclock_advance(timeout_ms > 0 ? (uint64_t)timeout_ms * 1000000ULL : 50000ULL);
	}
}

static int pick_prio(void) { return vr_u8(&V) % 3; }

static void add_job(void)
{
	int p = pick_prio(); int id = (int)JOBS.size();
	JOBS.push_back(mjob{ p, 0 });
	int rc = qb_loop_job_add(L, (enum qb_loop_priority)p, mk(JOB, id), job_cb);
	VLOG(R, "      add job %d %s -> %d\n", id, pname(p), rc);
	if (rc != 0) { VFAIL(R, "job-add", "qb_loop_job_add returned %d", rc); return; }
	JOBQ[p].push_back(id);
}
static void add_timer(void)
{
	int p = pick_prio(); int id = (int)TIMERS.size();
	static const uint64_t durs[] = { 0, 1, 500000, 1000000, 3000000, 20000000, 250000000 };
	uint64_t d = durs[vr_u8(&V) % 7];
	qb_loop_timer_handle h = 0;
	int rc = qb_loop_timer_add(L, (enum qb_loop_priority)p, d, mk(TIMER, id), timer_cb, &h);
	VLOG(R, "      add timer %d %s +%llu ns -> %d\n", id, pname(p), (unsigned long long)d, rc);
	if (rc != 0) { VFAIL(R, "timer-add", "qb_loop_timer_add returned %d", rc); TIMERS.push_back(mtimer{ 0, p, 2, 0, 0 }); return; }
	uint32_t slot = (uint32_t)(h & 0xffffffffu);
	for (auto &o : TIMERS) if (o.slot == slot && o.st != 0 && o.h) { VCLASS(R, K_STALE); }
	for (auto &o : TIMERS) if (o.slot == slot && o.st == 0) { VFAIL(R, "timer-slot-in-use", "new timer got slot %u of pending timer", slot); }
	TIMERS.push_back(mtimer{ h, p, 0, vclock_mono() + d, slot });
}
static void add_fd(int reuse_number)
{
	int pfd[2]; if (pipe(pfd)) return;
	if (reuse_number >= 0 && pfd[0] != reuse_number) {
		/* the wanted number may have gone to the write end: move that out of the way first (dup2 would close it silently) */
		if (pfd[1] == reuse_number) { int nw = fcntl(pfd[1], F_DUPFD, reuse_number + 1); if (nw < 0) { close(pfd[0]); close(pfd[1]); return; } close(pfd[1]); pfd[1] = nw; }
		if (dup2(pfd[0], reuse_number) >= 0) { close(pfd[0]); pfd[0] = reuse_number; }
	}
	fcntl(pfd[0], F_SETFL, O_NONBLOCK); fcntl(pfd[1], F_SETFL, O_NONBLOCK);
	int p = pick_prio(); int id = (int)FDS.size();
	FDS.push_back(mfd{ pfd[0], pfd[1], p, false, 0, vr_bool(&V) != 0, 0 });
	int rc = qb_loop_poll_add(L, (enum qb_loop_priority)p, pfd[0], POLLIN, mk(FD, id), fd_cb);
	VLOG(R, "      add fd #%d descriptor %d %s -> %d\n", id, pfd[0], pname(p), rc);
	if (rc != 0) { VFAIL(R, "poll-add", "qb_loop_poll_add returned %d", rc); return; }
	FDS[id].reg = true;
	if (FDS.size() + JOBS.size() + TIMERS.size() > 40) VCLASS(R, K_MANY);
}
static void add_sig(void)
{
	int which = vr_u8(&V) % 2; int signo = which ? SIGUSR2 : SIGUSR1;
	if (outstanding_raises[which] > 0) return;	/* registrations only change while no delivery of that signal is under way */
	int p = pick_prio(); int id = (int)SIGS.size();
	qb_loop_signal_handle h = NULL;
	int rc = qb_loop_signal_add(L, (enum qb_loop_priority)p, signo, mk(SIG, id), sig_cb, &h);
	VLOG(R, "      add signal handler #%d for %d %s -> %d\n", id, signo, pname(p), rc);
	if (rc != 0) { VFAIL(R, "signal-add", "qb_loop_signal_add returned %d", rc); return; }
	SIGS.push_back(msig{ h, signo, p, true, 0, 0, false });
}

static void do_actions(int n)
{
	for (int a = 0; a < n && !R->fail && !stop_called; a++) {
		if (budget_left <= 0 || winding_down) return;
		budget_left--;
		unsigned k = vr_u8(&V) % 32, arg = vr_u8(&V);
		vop(R, k, arg, in_cb_kind * 1000 + in_cb_idx);
		if (k <= 4) add_job();
		else if (k <= 8) add_timer();
		else if (k <= 10) add_fd(-1);
		else if (k == 11) add_sig();
		else if (k <= 14 && !JOBS.empty()) {		/* delete a job: waiting, ran, deleted, or the running one */
			int id = arg % JOBS.size(); mjob &j = JOBS[id];
			token *tk = NULL; for (auto &t : TOK) if (t.kind == JOB && t.idx == id) tk = &t;
			int rc = qb_loop_job_del(L, (enum qb_loop_priority)j.prio, tk, job_cb);
			VLOG(R, "      del job %d (%s) -> %d\n", id, j.st == 0 ? "waiting" : j.st == 1 ? "ran" : "deleted", rc);
			if (in_cb_kind == JOB && in_cb_idx == id) { VCLASS(R, K_SELF); nontriv = true; }
			if (j.st == 0) {
				if (rc != 0) { VFAIL(R, "job-del-refused", "qb_loop_job_del of waiting job %d returned %d", id, rc); return; }
				j.st = 2; for (auto it = JOBQ[j.prio].begin(); it != JOBQ[j.prio].end(); ++it) if (*it == id) { JOBQ[j.prio].erase(it); break; }
				VCLASS(R, K_JOBDEL); VCLASS(R, K_DELQ); nontriv = true;
			} else if (rc == 0) { VFAIL(R, "stale-handle-accepted", "qb_loop_job_del of a job that already %s returned 0", j.st == 1 ? "ran" : "was deleted"); return; }
		}
		else if (k <= 18 && !TIMERS.empty()) {		/* delete a timer by any handle ever issued */
			int id = arg % TIMERS.size(); mtimer &m = TIMERS[id];
			if (!m.h) continue;
			int rc = qb_loop_timer_del(L, m.h);
			VLOG(R, "      del timer %d (%s) -> %d\n", id, m.st == 0 ? "pending" : m.st == 1 ? "fired" : "deleted", rc);
			if (in_cb_kind == TIMER && in_cb_idx == id) { VCLASS(R, K_SELF); nontriv = true; }
			if (m.st == 0) {
				if (rc != 0) { VFAIL(R, "timer-del-refused", "qb_loop_timer_del of pending timer %d returned %d", id, rc); return; }
				if (vclock_mono() > m.due) { VCLASS(R, K_DELQ); nontriv = true; }
				m.st = 2; VCLASS(R, K_TMRDEL);
			} else {
				if (rc == 0) { VFAIL(R, "stale-handle-accepted", "qb_loop_timer_del with the stale handle of timer %d (%s) returned 0", id, m.st == 1 ? "fired" : "deleted"); return; }
				for (auto &o : TIMERS) if (&o != &m && o.slot == m.slot && o.st == 0) { nontriv = true; }
			}
		}
		else if (k <= 21 && !FDS.empty()) {		/* poll_del */
			int id = arg % FDS.size(); mfd &f = FDS[id];
			if (f.rfd < 0) continue;
			/* is another registered entry using the same descriptor number? then the call is about that one */
			int target = id; for (size_t q = 0; q < FDS.size(); q++) if (FDS[q].reg && FDS[q].rfd == f.rfd) target = (int)q;
			mfd &g = FDS[target];
			int rc = qb_loop_poll_del(L, f.rfd);
			VLOG(R, "      poll_del descriptor %d (fd #%d, %s) -> %d\n", f.rfd, target, g.reg ? "registered" : "not registered", rc);
			if (in_cb_kind == FD && in_cb_idx == target) { VCLASS(R, K_SELF); nontriv = true; }
			if (g.reg) {
				if (rc != 0) { VFAIL(R, "poll-del-refused", "qb_loop_poll_del of registered descriptor %d returned %d", f.rfd, rc); return; }
				if (g.bytes > 0) { VCLASS(R, K_DELQ); nontriv = true; }
				g.reg = false;
			}
		}
		else if (k == 22 && !FDS.empty()) {		/* close a deleted fd and bring the same descriptor number back */
			int id = arg % FDS.size(); mfd &f = FDS[id];
			if (f.reg || f.rfd < 0) continue;	/* only after poll_del succeeded, as every caller does */
			int num = f.rfd;
			bool inuse = false; for (size_t q = 0; q < FDS.size(); q++) if ((int)q != id && FDS[q].rfd == num) inuse = true;
			if (inuse) continue;
			close(f.rfd); close(f.wfd); f.rfd = f.wfd = -1;
			VLOG(R, "      closed descriptor %d, re-adding the same number\n", num);
			add_fd(num);
			VCLASS(R, K_FDREUSE); nontriv = true;
		}
		else if (k <= 25 && !FDS.empty()) {		/* write to a pipe */
			int id = arg % FDS.size(); mfd &f = FDS[id];
			if (f.wfd < 0 || f.bytes > 200) continue;
			int n2 = 1 + (arg >> 4) % 3;
			for (int q = 0; q < n2; q++) if (write(f.wfd, "x", 1) == 1) f.bytes++;
			VLOG(R, "      write %d byte(s) to fd #%d (now %d)\n", n2, id, f.bytes);
		}
		else if (k == 26 && !FDS.empty()) {		/* poll_mod: new priority */
			int id = arg % FDS.size(); mfd &f = FDS[id];
			if (!f.reg) continue;
			token *tk = NULL; for (auto &t : TOK) if (t.kind == FD && t.idx == id) tk = &t;
			int np = pick_prio();
			int rc = qb_loop_poll_mod(L, (enum qb_loop_priority)np, f.rfd, POLLIN, tk, fd_cb);
			VLOG(R, "      poll_mod fd #%d -> %s rc %d\n", id, pname(np), rc);
			if (rc != 0) { VFAIL(R, "poll-mod", "qb_loop_poll_mod of a registered descriptor returned %d", rc); return; }
			f.prio = np; VCLASS(R, K_MOD);
		}
		else if (k <= 28 && !SIGS.empty()) {		/* raise a signal that has at least one handler */
			int which = arg % 2; int signo = which ? SIGUSR2 : SIGUSR1;
			bool any = false; for (auto &s : SIGS) if (s.reg && s.signo == signo) any = true;
			if (!any || outstanding_raises[which] >= 3) continue;
			for (auto &s : SIGS) if (s.reg && s.signo == signo) s.owed++;
			outstanding_raises[which]++;
			VLOG(R, "      raise %d\n", signo);
			raise(signo);
		}
		else if (k == 29 && !SIGS.empty()) {		/* delete a signal handler (never twice: the handle is a pointer) */
			int id = arg % SIGS.size(); msig &s = SIGS[id];
			if (!s.reg) continue;
			if (in_cb_kind == SIG && in_cb_idx == id) { VCLASS(R, K_SELF); nontriv = true; }
			/* the last handler of a signal must stay while a raise is in the pipe: the default action would kill us */
			int others = 0; for (auto &o : SIGS) if (&o != &s && o.reg && o.signo == s.signo) others++;
			if (s.owed > 0 && others == 0) continue;
			int rc = qb_loop_signal_del(L, s.h);
			VLOG(R, "      del signal handler #%d (owed %d) -> %d\n", id, s.owed, rc);
			if (rc != 0) { VFAIL(R, "signal-del-refused", "qb_loop_signal_del returned %d", rc); return; }
			if (s.owed > 0) { VCLASS(R, K_SIGDELQ); VCLASS(R, K_DELQ); nontriv = true; }
			s.reg = false; s.owed = 0;
			recompute_outstanding();
		}
		else if (k == 31 && !FDS.empty()) {		/* register a descriptor that is registered already: must be refused and must leave everything as it was */
			int id = arg % FDS.size(); mfd &f = FDS[id];
			if (!f.reg || f.rfd < 0) continue;
			int rc = qb_loop_poll_add(L, (enum qb_loop_priority)pick_prio(), f.rfd, POLLIN, mk(FD, id), fd_cb);
			VLOG(R, "      add descriptor %d (fd #%d) a second time -> %d\n", f.rfd, id, rc);
			if (rc == 0) { VFAIL(R, "double-add-accepted", "qb_loop_poll_add of descriptor %d, which is registered already, returned 0", f.rfd); return; }
			VCLASS(R, K_DOUBLEADD);
		}
		else if (k == 30 && arg % 8 >= 1 && arg % 8 <= 3 && !SIGS.empty()) {	/* signal_mod: a new priority (at any time), or the other signal number (while no delivery is under way) */
			int id = (arg >> 3) % SIGS.size(); msig &s = SIGS[id];
			if (!s.reg) continue;
			token *tk = NULL; for (auto &t : TOK) if (t.kind == SIG && t.idx == id) tk = &t;
			if (!tk) continue;
			int np = s.prio, nsig = s.signo;
			if (arg % 8 == 3) { if (outstanding_raises[0] > 0 || outstanding_raises[1] > 0) continue; nsig = s.signo == SIGUSR1 ? SIGUSR2 : SIGUSR1; }
			else np = pick_prio();
			int rc = qb_loop_signal_mod(L, (enum qb_loop_priority)np, nsig, tk, sig_cb, s.h);
			VLOG(R, "      signal_mod handler #%d: %s -> %s, signal %d -> %d (owed %d) rc %d\n", id, pname(s.prio), pname(np), s.signo, nsig, s.owed, rc);
			if (rc != 0) { VFAIL(R, "signal-mod", "qb_loop_signal_mod of a registered handler returned %d", rc); return; }
			VCLASS(R, K_SIGMOD);
			if (np != s.prio && s.owed > 0) VCLASS(R, K_SIGMODQ);
			if (nsig != s.signo) VCLASS(R, K_SIGMODNUM);
			bool moved_while_queued = np != s.prio && s.owed > 0;
			s.prio = np; s.signo = nsig;
			recompute_outstanding();
			if (moved_while_queued && (arg & 64)) {	/* ... and the handler is deleted right away: the delivery queued at its former priority must not run */
				int others = 0; for (auto &o : SIGS) if (&o != &s && o.reg && o.signo == s.signo) others++;
				if (others > 0) {
					int rc2 = qb_loop_signal_del(L, s.h);
					VLOG(R, "      del signal handler #%d (owed %d, just moved) -> %d\n", id, s.owed, rc2);
					if (rc2 != 0) { VFAIL(R, "signal-del-refused", "qb_loop_signal_del returned %d", rc2); return; }
					VCLASS(R, K_SIGDELQ); VCLASS(R, K_DELQ); VCLASS(R, K_SIGMODDEL); nontriv = true;
					s.reg = false; s.owed = 0;
					recompute_outstanding();
				}
			}
		}
		else if (k == 30 && arg % 8 == 0 && in_cb_kind >= 0) {
			VLOG(R, "      stop\n");
			stop_called = 2; callbacks_at_stop = callbacks; qb_loop_stop(L); VCLASS(R, K_STOP);
		}
	}
}

extern "C" void verif_init(void) {}

extern "C" int verif_case(const uint8_t *data, size_t size, struct verif_report *r)
{
	vr_init(&V, data, size);
	R = r; TOK.clear(); JOBS.clear(); TIMERS.clear(); FDS.clear(); SIGS.clear(); for (int p = 0; p < 3; p++) JOBQ[p].clear();
	callbacks = iterations = stop_called = 0; in_cb_kind = in_cb_idx = -1; nontriv = winding_down = false; outstanding_raises[0] = outstanding_raises[1] = 0;
	budget_left = 20 + vr_u8(&V) % 120;
	verif_random_reset(vr_u8(&V));
	vclock_enable(1); vclock_set_mono(1000000000ULL + vr_u16(&V)); vclock_set_real(1700000000ULL * 1000000000ULL);
	vepoll_enable(1, hook);
	L = qb_loop_create();
	if (!L) { r->inconclusive = 1; return 0; }
	VLOG(r, "initial registrations (budget %d actions)\n", budget_left);
	do_actions(2 + vr_u8(&V) % 8);
	for (int round = 0; round < 2000 && !r->fail; round++) {
		if (round == 1999) { budget_left = 0; winding_down = true; }
		qb_loop_run(L);
		VLOG(r, "qb_loop_run returned (stop %d) after %d iterations, %d callbacks\n", stop_called, iterations, callbacks);
		if (stop_called == 2) {
			/* a callback asked the loop to stop: run must return without dispatching anything else */
			if (callbacks != callbacks_at_stop) { VFAIL(r, "stop-ignored", "%d more callback(s) ran after a callback had called qb_loop_stop", callbacks - callbacks_at_stop); break; }
			stop_called = 0;
			if (budget_left <= 0) winding_down = true;
			continue;
		}
		if (stop_called == 3) {
			stop_called = 0;
			VLOG(r, "operations from outside the loop\n");
			do_actions(1 + vr_u8(&V) % 4);
			if (vr_eof(&V)) budget_left = 0;
			if (budget_left <= 0) winding_down = true;
			continue;
		}
		break;
	}
	/* the signal pipe drains one raise per iteration: count what is still owed when we end */
	for (int w = 0; w < 2; w++) outstanding_raises[w] = 0;
	if (!r->fail) {
		std::string why;
		if (!model_quiescent(&why) && stop_called != 2) VFAIL(r, "never-dispatched", "the loop went idle / was stopped by the harness although %s", why.c_str());
	}
	r->nontrivial = nontriv;
	if (!r->fail) {
		for (auto &f : FDS) { if (f.reg) qb_loop_poll_del(L, f.rfd); if (f.rfd >= 0) close(f.rfd); if (f.wfd >= 0) close(f.wfd); }
		for (auto &s : SIGS) if (s.reg) qb_loop_signal_del(L, s.h);
		qb_loop_destroy(L);
	}
	return 0;
}
