/*
 * C16 - threaded logging: every queued message is written once, in order, before fini returns;
 * control operations are safe in any order relative to set-threaded / thread-start / fini / re-init.
 *
 * One case = one forked process with real threads (the libqb logging thread is the consumer, calling the
 * harness's custom logger).  The case decides the order of init / open / set-threaded / control / start /
 * bursts / fini / re-init, the sizes, the consumer's delays, and whether the idle logging thread is frozen
 * (by a signal handler that blocks) while a burst overruns the 512000-byte backlog.
 * Target A stays enabled and selected for its whole life (strict oracle); target B receives the
 * disruptive control operations (weak oracle: increasing, no duplicates, nothing invented).
 */
#include <string>
#include <vector>
#include <atomic>
#include <pthread.h>
#include <signal.h>
#include <semaphore.h>
#include <sys/mman.h>
extern "C" {
#include "os_base.h"
#include <qb/qblog.h>
#include "verif.h"
void verif_perturb_set(uint32_t seed, unsigned one_in, unsigned max_us);
}

const char *verif_property = "C16";
const char *verif_class_names[] = { "control_while_worker_busy", "backlog_limit_hit", "undocumented_order", "reinit_after_fini", "control_before_start",
	"log_before_start", "never_started", "two_threaded_targets", "b_disabled_with_backlog", "big_burst", "fini_with_backlog", "file_target", NULL };
enum { K_CTLBUSY, K_BACKLOG, K_ORDER, K_REINIT, K_PRECTL, K_PRELOG, K_NOSTART, K_TWO, K_BDIS, K_BURST, K_FINIBACK, K_FILE };
const char *verif_rule =
	"case = 1-2 sessions of init / open targets / set-threaded / control ops / thread-start / bursts of m messages of size z / control ops (A: reconfigure only, B: enable, disable, close) / "
	"consumer delays / freeze of the idle logging thread + a burst beyond the 512000-byte backlog / fini, in generated order (incl. control and logging before thread-start, no thread-start "
	"at all, fini -> init -> thread-start); real threads, timing perturbed by generated sleeps; non-trivial = a control op ran while the logging thread was inside the logger callback, or the "
	"backlog limit was hit, or the order differs from the documented one; distinct = hash of the decoded case";
int verif_fork_per_case = 1;
int verif_case_timeout_ms = 40000;
int verif_hang_is_violation = 1;
int verif_nondeterministic = 1;
size_t verif_max_size = 120;
size_t verif_min_size = 12;

static pthread_mutex_t MU = PTHREAD_MUTEX_INITIALIZER;
static std::vector<long> GOT[2];		/* sequence numbers delivered to target slot 0 (A) / 1 (B) */
static int TID[2] = { -1, -1 };
static std::atomic<int> in_callback{ 0 }, ctl_while_busy{ 0 }, delay_us{ 0 };
static std::atomic<int> writing[2];	/* the logging thread is inside the logger of target slot k right now */
static std::atomic<int> closed_under_writer{ 0 };
static std::atomic<int> is_closed[2], logger_after_close{ 0 };	/* the close callback of target slot k has run and the target was not enabled again since */
static pthread_t worker_tid; static pthread_t main_tid; static std::atomic<int> have_worker{ 0 };
static int freeze_pipe[2];
static std::atomic<int> frozen{ 0 };
static struct verif_report *R;

static void freeze_handler(int sig) { (void)sig; char c; frozen = 1; while (read(freeze_pipe[0], &c, 1) < 0 && errno == EINTR) ; frozen = 0; }

static void logger_cb(int32_t t, struct qb_log_callsite *cs, struct timespec *ts, const char *msg)
{
	(void)cs; (void)ts;
	in_callback++;
	if (!pthread_equal(pthread_self(), worker_tid) && TID[0] >= 0) { /* remember who calls us from the logging thread */ }
	int slot = t == TID[0] ? 0 : t == TID[1] ? 1 : -1;
	bool from_worker = !pthread_equal(pthread_self(), main_tid);
	if (slot >= 0 && from_worker) writing[slot]++;
	if (slot >= 0 && is_closed[slot].load()) logger_after_close++;
	long seq = -1;
	if (msg[0] == 'm') seq = atol(msg + 1);
	int d = delay_us.load();
	if (d) usleep(d);
	pthread_mutex_lock(&MU);
	if (slot >= 0) GOT[slot].push_back(seq);
	pthread_mutex_unlock(&MU);
	if (slot >= 0 && from_worker) writing[slot]--;
	in_callback--;
}
static void logger_cb_threaded(int32_t t, struct qb_log_callsite *cs, struct timespec *ts, const char *msg)
{
	if (!have_worker.load() && !pthread_equal(pthread_self(), main_tid)) { worker_tid = pthread_self(); have_worker = 1; }	/* before the thread exists a threaded target is served by the caller */
	logger_cb(t, cs, ts, msg);
}
/* a target must not be closed (disable and custom_close both end up here) while the logging thread is writing to it */
static void close_cb(int32_t t) { int slot = t == TID[0] ? 0 : t == TID[1] ? 1 : -1; if (slot >= 0 && writing[slot].load() > 0) closed_under_writer++; if (slot >= 0) is_closed[slot] = 1; }
static void reload_cb(int32_t t) { (void)t; }

static void post(long seq, size_t z)
{
	static std::string pad;
	if (pad.size() < z) pad.assign(z, 'x');
	qb_log_from_external_source("fn", "t.c", "m%ld %.*s", LOG_INFO, 42, 0, seq, (int)z, pad.c_str());
}

static size_t delivered(int slot) { pthread_mutex_lock(&MU); size_t n = GOT[slot].size(); pthread_mutex_unlock(&MU); return n; }

extern "C" void verif_init(void) {}

extern "C" int verif_case(const uint8_t *data, size_t size, struct verif_report *r)
{
	struct vr v; vr_init(&v, data, size);
	R = r;
	main_tid = pthread_self();
	int real_out = dup(1);
	int mfd = memfd_create("c16out", 0);
	if (pipe(freeze_pipe)) { r->inconclusive = 1; return 0; }
	struct sigaction sa; memset(&sa, 0, sizeof sa); sa.sa_handler = freeze_handler; sigaction(SIGUSR1, &sa, NULL);
	if (r->want_log) r->logf = fdopen(dup(real_out), "w");	/* the decoded case goes to the real stdout */
	fflush(stdout); dup2(mfd, 1);
	{ unsigned p = vr_u8(&v); verif_perturb_set(p % 4 == 0 ? 0 : 1 + vr_u16(&v), (unsigned[]){ 2, 4, 8, 16 }[(p >> 2) % 4], (unsigned[]){ 50, 300, 1000, 200 }[(p >> 4) % 4]); }
	int sessions = 1 + (vr_u8(&v) % 3 == 0);
	long seq = 0;
	bool nontrivial = false;
	for (int s = 0; s < sessions && !r->fail; s++) {
		GOT[0].clear(); GOT[1].clear(); have_worker = 0; delay_us = 0; is_closed[0] = is_closed[1] = 0;
		std::vector<long> postedA;		/* sequence numbers A must see (minus reported drops) */
		std::vector<long> postedB_any;		/* everything posted while B existed: B may see a subsequence */
		size_t bytes_posted = 0; long lost_reported = 0;
		bool a_thr = vr_u8(&v) % 8 != 0, has_b = vr_bool(&v), b_thr = vr_bool(&v), b_enabled = false, b_open = false;
		bool started = false, will_start = vr_u8(&v) % 8 != 0;
		if (s > 0) { VCLASS(r, K_REINIT); nontrivial = true; }
		qb_log_init("verif", LOG_USER, LOG_INFO);
		qb_log_ctl(QB_LOG_SYSLOG, QB_LOG_CONF_ENABLED, QB_FALSE);
		TID[0] = qb_log_custom_open(a_thr ? logger_cb_threaded : logger_cb, close_cb, reload_cb, NULL);
		TID[1] = -1;
		if (TID[0] < 0) { r->inconclusive = 1; break; }
		qb_log_filter_ctl(TID[0], QB_LOG_FILTER_ADD, QB_LOG_FILTER_FILE, "t.c", LOG_TRACE);
		/* documented order: open, enable, threaded, start; the case may set threaded before enabling */
		bool thr_first = vr_bool(&v);
		if (a_thr && thr_first) qb_log_ctl(TID[0], QB_LOG_CONF_THREADED, QB_TRUE);
		qb_log_ctl(TID[0], QB_LOG_CONF_ENABLED, QB_TRUE);
		if (a_thr && !thr_first) qb_log_ctl(TID[0], QB_LOG_CONF_THREADED, QB_TRUE);
		if (has_b) {
			TID[1] = qb_log_custom_open(b_thr ? logger_cb_threaded : logger_cb, close_cb, reload_cb, NULL);
			if (TID[1] >= 0) {
				b_open = true;
				qb_log_filter_ctl(TID[1], QB_LOG_FILTER_ADD, QB_LOG_FILTER_FILE, "t.c", LOG_TRACE);
				if (b_thr) qb_log_ctl(TID[1], QB_LOG_CONF_THREADED, QB_TRUE);
				if (vr_bool(&v)) { qb_log_ctl(TID[1], QB_LOG_CONF_ENABLED, QB_TRUE); b_enabled = true; }
				if (a_thr && b_thr) VCLASS(r, K_TWO);
			}
		}
		/* a target of the built-in file logger, enabled for the whole session: what most users have */
		bool has_f = vr_bool(&v), f_thr = vr_u8(&v) % 4 != 0; int fid = -1; char fpath[512] = "";
		if (has_f) {
			snprintf(fpath, sizeof fpath, "%s/c16-%d-%d.log", verif_scratch_dir(), (int)getpid(), s);
			unlink(fpath);
			fid = qb_log_file_open(fpath);
			if (fid < 0) has_f = false;
			else {
				qb_log_filter_ctl(fid, QB_LOG_FILTER_ADD, QB_LOG_FILTER_FILE, "t.c", LOG_TRACE);
				qb_log_format_set(fid, "%b");
				qb_log_ctl(fid, QB_LOG_CONF_THREADED, f_thr ? QB_TRUE : QB_FALSE);	/* said explicitly: a re-used target slot keeps the flag of its previous owner */
				qb_log_ctl(fid, QB_LOG_CONF_ENABLED, QB_TRUE);
				VCLASS(r, K_FILE);
			}
		}
		VLOG(r, "session %d: A threaded=%d, B %s threaded=%d enabled=%d, file target %s threaded=%d, thread will%s be started\n", s, a_thr, b_open ? "open" : "absent", b_thr, b_enabled, has_f ? "open" : "absent", f_thr, will_start ? "" : " NOT");
		vop(r, 0xC16, a_thr * 8 + has_b * 4 + b_thr * 2 + will_start, s);

		auto control_a = [&](unsigned k) {
			if (in_callback.load() > 0) { ctl_while_busy++; }
			switch (k % 4) {
			case 0: qb_log_ctl(TID[0], QB_LOG_CONF_MAX_LINE_LEN, 600 + (k % 7) * 100); break;
			case 1: qb_log_ctl(TID[0], QB_LOG_CONF_EXTENDED, k & 4 ? QB_TRUE : QB_FALSE); break;
			case 2: qb_log_format_set(TID[0], k & 4 ? "%b" : "[%p] %b"); break;
			default: qb_log_ctl(TID[0], QB_LOG_CONF_ELLIPSIS, k & 4 ? QB_TRUE : QB_FALSE); break;
			}
		};
		auto do_burst = [&](int m, size_t z) {
			for (int i = 0; i < m; i++) {
				postedA.push_back(seq);
				if (b_open) postedB_any.push_back(seq);
				bytes_posted += z + 16 + 64;	/* text + record overhead, rounded up */
				post(seq++, z);
			}
		};
		/* ---- before the logging thread exists */
		int npre = vr_u8(&v) % 4;
		for (int i = 0; i < npre && !r->fail; i++) {
			unsigned k = vr_u8(&v);
			if (k % 3 == 0) { VLOG(r, "  pre-start: log 2 messages\n"); do_burst(2, 10); VCLASS(r, K_PRELOG); nontrivial = true; }
			else { VLOG(r, "  pre-start: control A (%u)\n", k % 4); control_a(k); VCLASS(r, K_PRECTL); VCLASS(r, K_ORDER); nontrivial = true; }
			vop(r, 1, k, 0);
		}
		if (will_start) {
			int rc = qb_log_thread_start();
			VLOG(r, "  thread_start -> %d\n", rc);
			if (rc != 0) { VFAIL(r, "thread-start", "qb_log_thread_start returned %d", rc); break; }
			started = true;
		} else { VCLASS(r, K_NOSTART); VCLASS(r, K_ORDER); nontrivial = true; }
		/* ---- main phase */
		int nops = vr_u8(&v) % 16;
		for (int i = 0; i < nops && !r->fail; i++) {
			unsigned k = vr_u8(&v) % 16, arg = vr_u8(&v);
			vop(r, 2 + k, arg, 0);
			if (k <= 5) { int m = 1 + arg % 40; size_t z = (size_t[]){ 0, 10, 100, 400, 480 }[arg % 5]; VLOG(r, "  burst %d x %zu\n", m, z); do_burst(m, z); }
			else if (k == 6) { int m = 200 + arg; VLOG(r, "  burst %d x 300\n", m); if (delay_us.load() > 50) delay_us = 50; /* a slow consumer and hundreds of queued records only make the case slow */ do_burst(m, 300); VCLASS(r, K_BURST); }
			else if (k <= 8) { VLOG(r, "  control A (%u)%s\n", arg % 4, in_callback.load() ? " [worker busy]" : ""); control_a(arg); }
			else if (k == 9 && b_open) {
				if (b_enabled && arg % 2) do_burst(3 + arg % 6, 10);
				b_enabled = !b_enabled;
				if (!b_enabled && delivered(0) < postedA.size()) VCLASS(r, K_BDIS);
				if (in_callback.load() > 0) ctl_while_busy++;
				VLOG(r, "  B %s\n", b_enabled ? "enabled" : "disabled");
				if (b_enabled) is_closed[1] = 0;
				qb_log_ctl(TID[1], QB_LOG_CONF_ENABLED, b_enabled ? QB_TRUE : QB_FALSE);
			}
			else if (k == 10 && b_open) { int od = delay_us.load();
				if (b_enabled && arg % 2) { delay_us = 300; do_burst(3 + arg % 6, 10); usleep(100 + (arg >> 1) * 4); delay_us = od; }	/* the logging thread is busy writing when the close arrives */
				if (in_callback.load() > 0) ctl_while_busy++; VLOG(r, "  B closed\n"); qb_log_custom_close(TID[1]); b_open = false; b_enabled = false; }
			else if (k == 11) { delay_us = (int[]){ 0, 50, 500, 3000 }[arg % 4]; VLOG(r, "  consumer delay %d us\n", delay_us.load()); }
			else if (k == 12) { usleep((arg % 8) * 300); }
			else if (k == 13 && started && a_thr && have_worker.load() && arg % 2 == 0) {
				/* freeze the idle logging thread, overrun the backlog, release */
				for (int w = 0; w < 2000 && delivered(0) + (size_t)lost_reported < postedA.size(); w++) usleep(500);
				usleep(2000);
				if (in_callback.load() == 0) {
					pthread_kill(worker_tid, SIGUSR1);
					for (int w = 0; w < 2000 && !frozen.load(); w++) usleep(100);
					if (frozen.load()) {
						int m = 1150 + arg * 7;	/* up to ~1.3 MB: well beyond the limit, and beyond twice the limit in total */
						delay_us = 0;	/* draining a thousand records through a slow consumer would take longer than the watchdog allows */
						VLOG(r, "  logging thread frozen; burst %d x 400 (beyond the backlog limit)\n", m);
						do_burst(m, 400);
						VCLASS(r, K_BACKLOG); nontrivial = true;
					}
					if (write(freeze_pipe[1], "x", 1) != 1) {}
					for (int w = 0; w < 2000 && frozen.load(); w++) usleep(100);
				}
			}
		}
		/* a last message right before fini, with a generated tiny gap: the logging thread is woken for it just as the exit request arrives */
		{
			unsigned g = vr_u8(&v);
			if (g % 4 != 0) { do_burst(1 + g % 2, 0); for (volatile unsigned spin = 0; spin < (g >> 2) * 40u; spin++) ; }
		}
		if (started && delivered(0) < postedA.size()) VCLASS(r, K_FINIBACK);
		VLOG(r, "  fini (A has %zu of %zu so far)\n", delivered(0), postedA.size());
		qb_log_fini();
		/* ---- the session is over: everything not reported lost must have been written */
		fflush(stdout);
		{
			off_t n = lseek(mfd, 0, SEEK_END); std::string out((size_t)n, 0);
			lseek(mfd, 0, SEEK_SET); if (n > 0 && read(mfd, &out[0], n) != n) out.clear();
			if (ftruncate(mfd, 0)) {}
			lseek(mfd, 0, SEEK_SET);
			size_t p = 0;
			while ((p = out.find(" messages lost", p)) != std::string::npos) {
				size_t b = p; while (b > 0 && isdigit((unsigned char)out[b - 1])) b--;
				lost_reported += atol(out.c_str() + b); p++;
			}
		}
		pthread_mutex_lock(&MU);
		std::vector<long> ga = GOT[0], gb = GOT[1];
		pthread_mutex_unlock(&MU);
		VLOG(r, "  after fini: A received %zu of %zu, reported lost %ld; B received %zu\n", ga.size(), postedA.size(), lost_reported, gb.size());
		for (size_t i = 1; i < ga.size(); i++) if (ga[i] <= ga[i - 1]) { VFAIL(r, ga[i] == ga[i - 1] ? "duplicate-delivery" : "out-of-order", "target A received message %ld after %ld", ga[i], ga[i - 1]); break; }
		for (size_t i = 1; i < gb.size() && !r->fail; i++) if (gb[i] <= gb[i - 1]) { VFAIL(r, gb[i] == gb[i - 1] ? "duplicate-delivery" : "out-of-order", "target B received message %ld after %ld", gb[i], gb[i - 1]); break; }
		if (!r->fail) {
			size_t j = 0;
			for (long g : ga) { while (j < postedA.size() && postedA[j] != g) j++; if (j == postedA.size()) { VFAIL(r, "invented-message", "target A received message %ld which was not posted in this session", g); break; } }
		}
		if (!r->fail) {
			long missing = (long)postedA.size() - (long)ga.size();
			if (bytes_posted < 500000 && (missing != 0 || lost_reported != 0))
				VFAIL(r, missing ? "message-lost" : "bogus-loss-report", "session %d: %ld of %zu messages never reached target A (and %ld were reported lost) although the backlog limit cannot have been reached (%zu bytes posted in total)", s, missing, postedA.size(), lost_reported, bytes_posted);
			else if (missing != lost_reported)
				VFAIL(r, "loss-accounting", "session %d: %ld messages never reached target A when qb_log_fini returned, %ld were reported lost", s, missing, lost_reported);
		}
		/* ---- the file target: what is in the file when qb_log_fini has returned */
		if (!r->fail && has_f) {
			std::vector<long> gf;
			FILE *fp = fopen(fpath, "r");
			if (fp) { static char line[4096]; while (fgets(line, sizeof line, fp)) if (line[0] == 'm' && isdigit((unsigned char)line[1])) gf.push_back(atol(line + 1)); fclose(fp); }
			unlink(fpath);
			VLOG(r, "  after fini: the file holds %zu of %zu messages\n", gf.size(), postedA.size());
			for (size_t i = 1; i < gf.size(); i++) if (gf[i] <= gf[i - 1]) { VFAIL(r, gf[i] == gf[i - 1] ? "duplicate-delivery" : "out-of-order", "the file target has message %ld after %ld", gf[i], gf[i - 1]); break; }
			if (!r->fail) { size_t j = 0; for (long g : gf) { while (j < postedA.size() && postedA[j] != g) j++; if (j == postedA.size()) { VFAIL(r, "invented-message", "the file holds message %ld which was not posted in this session", g); break; } } }
			if (!r->fail) {
				long missing = (long)postedA.size() - (long)gf.size();
				bool queued = f_thr && started;		/* only then records for it go through the backlog (and can be dropped, with a report) */
				if ((!queued || bytes_posted < 500000) && missing != 0)
					VFAIL(r, "message-lost", "session %d: %ld of %zu messages are not in the file of the %s file target after qb_log_fini (%zu bytes posted in total, %ld reported lost)", s, missing, postedA.size(), f_thr ? "threaded" : "direct", bytes_posted, lost_reported);
				else if (queued && missing != lost_reported)
					VFAIL(r, "loss-accounting", "session %d: %ld messages are missing in the threaded file target's file, %ld were reported lost", s, missing, lost_reported);
			}
		}
	}
	if (!r->fail && logger_after_close.load()) VFAIL(r, "logger-after-close", "a target's logger was called %d time(s) after its close callback had run (the target was disabled or closed in the meantime and not enabled again)", logger_after_close.load());
	if (!r->fail && closed_under_writer.load()) VFAIL(r, "closed-under-writer", "a target's close callback ran %d time(s) while the logging thread was inside that target's logger", closed_under_writer.load());
	dup2(real_out, 1); close(real_out); close(mfd);
	if (ctl_while_busy.load()) { VCLASS(r, K_CTLBUSY); nontrivial = true; }
	r->nontrivial = nontrivial;
	return 0;
}
