/*
 * C02 - IPC: requests, responses and events arrive exactly once, in order, intact; a refused send has
 * no effect; while an event is queued the client's poll descriptor is readable (at server quiescence).
 * In-process client(s) + server, both transports; oracle: three FIFO queues per connection.
 */
#include "ipc_common.h"
#include <sys/uio.h>
#include <pthread.h>
#include <time.h>

const char *verif_property = "C02";
const char *verif_class_names[] = { "refused_then_retried", "two_in_flight", "deferred_notification", "size_at_limit", "size_beyond_limit", "fc_toggled_midburst",
	"shm", "socket", "event_readable_checked", "response_from_callback", "response_from_outside", "three_clients", "ring_full_refusal", "sendv", "client_send_blocked_then_rescued", "receive_buffer_too_small", "events_drained_under_flow_control", "sendv_recv", "sendv_recv_with_response_waiting", "server_sendv", "iovec_with_empty_segment", NULL };
enum { K_RETRY, K_INFLIGHT, K_DEFER, K_ATLIMIT, K_BEYOND, K_FC, K_SHM, K_SOCK, K_READABLE, K_RESPCB, K_RESPOUT, K_THREE, K_FULL, K_SENDV, K_RESCUED, K_SMALLBUF, K_EVFC, K_SENDRECV, K_SRQUEUED, K_SRVSENDV, K_EMPTYSEG };
const char *verif_rule =
	"case = transport, negotiated maximum size, 1-3 clients and an op list: client send/sendv/recv/event_recv (timeout 0), server step (dispatch one ready descriptor chosen by the case), "
	"server response/event of generated length from inside the message callback or from outside, rate-limit changes (OFF, OFF_2, NORMAL, FAST, SLOW), fc_enable_max changes, shrinking the "
	"notification socket's buffers, message sizes around the negotiated maximum; non-trivial = a send refused by back-pressure/flow control was later retried successfully AND >= 2 messages "
	"were in flight at once; distinct = hash of the decoded op list";
int verif_fork_per_case = 1;
int verif_case_timeout_ms = 20000;
int verif_hang_is_violation = 1;
size_t verif_max_size = 500;
size_t verif_min_size = 16;

struct mmsg { uint32_t len; uint32_t seq; };
struct conn {
	qb_ipcc_connection_t *cl; qb_ipcs_connection_t *sv; int idx;
	std::deque<mmsg> req, resp, evt;
	uint32_t nreq, nresp, nevt;		/* sequence counters */
	bool refused_pending;			/* a send was refused and not yet retried successfully */
	int owed_responses;			/* requests processed whose response the case decided to send later */
};
static conn C[3]; static int NC;
static struct verif_report *R;
static struct vr V;
static qb_ipcs_service_t *S;
static size_t MAXMSG;
static bool nt_retry, nt_inflight;
static uint8_t *sbuf, *rbuf, *srvbuf;	/* srvbuf: what the server sends (the server may run in the helper thread while the client is inside a send from sbuf) */

/* message body: [hdr][conn idx u32][seq u32][kind u32][keyed bytes...] */
static void fill_msg(uint8_t *b, size_t len, int ci, uint32_t seq, uint32_t kind, size_t hdrsz)
{
	for (size_t i = hdrsz; i < len; i++) b[i] = (uint8_t)(vmix(seq * 2654435761u + kind * 97 + ci, i) >> 16);
	if (len >= hdrsz + 12) { uint32_t w[3] = { (uint32_t)ci, seq, kind }; memcpy(b + hdrsz, w, 12); }
}
static bool check_msg(const uint8_t *got, size_t len, int ci, uint32_t seq, uint32_t kind, size_t hdrsz, size_t *bad)
{
	static uint8_t *e; if (!e) e = (uint8_t *)malloc(1 << 20);
	fill_msg(e, len, ci, seq, kind, hdrsz);
	for (size_t i = hdrsz; i < len; i++) if (got[i] != e[i]) { *bad = i; return false; }
	return true;
}
static size_t pick_len(size_t hdrsz)
{
	unsigned k = vr_u8(&V) % 10;
	size_t l;
	switch (k) {
	case 0: l = hdrsz; break;					/* bare header */
	case 1: l = hdrsz + 12; break;
	case 2: l = MAXMSG; VCLASS(R, K_ATLIMIT); break;
	case 3: l = MAXMSG - 1 - vr_u8(&V) % 8; VCLASS(R, K_ATLIMIT); break;
	case 4: l = MAXMSG + 1 + vr_u8(&V) % 64; VCLASS(R, K_BEYOND); break;
	case 5: l = hdrsz + vr_u16(&V) % 4000; break;
	case 6: l = MAXMSG / 2 + vr_u8(&V); break;
	default: l = hdrsz + 12 + vr_u8(&V); break;
	}
	return l;
}

static int conn_of(qb_ipcs_connection_t *c) { for (int i = 0; i < NC; i++) if (C[i].sv == c) return i; return -1; }

static void server_send(conn &c, bool event, const char *where)
{
	size_t hs = sizeof(struct qb_ipc_response_header);
	size_t len = pick_len(hs);
	uint32_t seq = event ? c.nevt : c.nresp;
	struct qb_ipc_response_header *h = (struct qb_ipc_response_header *)srvbuf;
	fill_msg(srvbuf, len, c.idx, seq, event ? 2 : 1, hs);
	h->id = event ? 77 : 66; h->size = (int32_t)len; h->error = 0;
	ssize_t rc;
	if (seq % 4 == 1 || seq % 4 == 3) {	/* the iovec variants: two segments, or three with an empty one in the middle (as writev allows) */
		size_t cut = len > hs + 4 ? hs + 3 : len;
		struct iovec iov[3] = { { srvbuf, cut }, { srvbuf, 0 }, { srvbuf + cut, len - cut } };
		if (seq % 4 == 1) { iov[1] = iov[2]; rc = event ? qb_ipcs_event_sendv(c.sv, iov, 2) : qb_ipcs_response_sendv(c.sv, iov, 2); }
		else { rc = event ? qb_ipcs_event_sendv(c.sv, iov, 3) : qb_ipcs_response_sendv(c.sv, iov, 3); VCLASS(R, K_EMPTYSEG); }
		VCLASS(R, K_SRVSENDV);
	}
	else rc = event ? qb_ipcs_event_send(c.sv, srvbuf, len) : qb_ipcs_response_send(c.sv, srvbuf, len);
	vop(R, event ? 11 : 10, c.idx, len);
	VLOG(R, "  server %s to client %d len %zu seq %u (%s) -> %zd\n", event ? "event" : "response", c.idx, len, seq, where, rc);
	if (rc == (ssize_t)len) {
		if (len > MAXMSG) { VFAIL(R, "oversize-accepted", "server %s of %zu bytes accepted although the negotiated maximum is %zu", event ? "event" : "response", len, MAXMSG); return; }
		if (event) { c.evt.push_back(mmsg{ (uint32_t)len, seq }); c.nevt++; if (c.evt.size() >= 2) nt_inflight = true; }
		else { c.resp.push_back(mmsg{ (uint32_t)len, seq }); c.nresp++; if (c.resp.size() >= 2) nt_inflight = true; }
	} else if (rc >= 0) { VFAIL(R, "send-partial", "server send of %zu bytes returned %zd", len, rc); }
	else if (rc == -EAGAIN || rc == -ENOBUFS) VCLASS(R, K_FULL);
}

static int32_t s_accept(qb_ipcs_connection_t *c, uid_t u, gid_t g) { (void)c; (void)u; (void)g; return 0; }
static void s_created(qb_ipcs_connection_t *c) { for (int i = 0; i < 3; i++) if (!C[i].sv && C[i].idx == -2) { C[i].sv = c; C[i].idx = i; return; } }
static int32_t s_closed(qb_ipcs_connection_t *c) { (void)c; return 0; }
static void s_destroyed(qb_ipcs_connection_t *c) { int i = conn_of(c); if (i >= 0) C[i].sv = NULL; }
/* ---- the one place where the client blocks: qb_ipcc_send spins while the client-to-server notification socket is full.
   A helper thread plays "the server gets some CPU": only while the main thread has been stuck inside a send for 2 ms it runs server steps
   (the main thread touches nothing meanwhile, so the harness state is never accessed concurrently). */
static pthread_mutex_t rescue_mx = PTHREAD_MUTEX_INITIALIZER;
static volatile int in_send, rescue_on, rescues, fc_state;
static volatile double send_start_ms, rescue_delay_ms = 2.0;	/* how long the server stays away while the client is stuck (a busy server) */
static double now_ms(void) { struct timespec ts; clock_gettime(CLOCK_MONOTONIC, &ts); return ts.tv_sec * 1e3 + ts.tv_nsec / 1e6; }
static void *rescue_main(void *)
{
	for (;;) {
		struct timespec ts = { 0, 300000 }; nanosleep(&ts, NULL);
		if (!in_send || now_ms() - send_start_ms < rescue_delay_ms) continue;
		pthread_mutex_lock(&rescue_mx);
		if (in_send) {
			/* a server that keeps flow control on never reads: after 20 ms it lifts it, as a real server eventually would */
			if (fc_state && now_ms() - send_start_ms > rescue_delay_ms + 20.0) { qb_ipcs_request_rate_limit(S, QB_IPCS_RATE_NORMAL); fc_state = 0; }
			server_step(0); rescues++;
		}
		pthread_mutex_unlock(&rescue_mx);
	}
	return NULL;
}
static void rescue_start(void) { if (rescue_on) return; pthread_t t; if (pthread_create(&t, NULL, rescue_main, NULL) == 0) { pthread_detach(t); rescue_on = 1; } }
static void send_begin(void) { send_start_ms = now_ms(); __sync_synchronize(); in_send = 1; }
static void send_end(void) { in_send = 0; __sync_synchronize(); pthread_mutex_lock(&rescue_mx); pthread_mutex_unlock(&rescue_mx); }

static int32_t s_msg(qb_ipcs_connection_t *sc, void *data, size_t size)
{
	int i = conn_of(sc);
	if (i < 0) { VFAIL(R, "msg-unknown-connection", "message callback for a connection the harness does not know"); return 0; }
	conn &c = C[i];
	VLOG(R, "  msg_process client %d size %zu (model head: %s)\n", i, size, c.req.empty() ? "none" : std::to_string(c.req.front().len).c_str());
	if (c.req.empty()) { VFAIL(R, "request-phantom", "message callback invoked for client %d although every accepted request was already delivered (duplicate or invented)", i); return 0; }
	mmsg m = c.req.front();
	if (size != m.len) { VFAIL(R, "request-length", "request seq %u of client %d delivered with size %zu, sent with %u", m.seq, i, size, m.len); return 0; }
	size_t bad;
	if (!check_msg((const uint8_t *)data, size, i, m.seq, 0, sizeof(struct qb_ipc_request_header), &bad)) { VFAIL(R, "request-bytes", "request seq %u of client %d differs at byte %zu (reordered, stale or damaged)", m.seq, i, bad); return 0; }
	c.req.pop_front();
	/* respond now, later, or not at all; maybe an event */
	unsigned k = vr_u8(&V) % 8;
	if (k <= 3) { server_send(c, false, "inside msg_process"); VCLASS(R, K_RESPCB); }
	else if (k <= 5) c.owed_responses++;
	if (vr_u8(&V) % 4 == 0) server_send(c, true, "inside msg_process");
	return 0;
}

static bool is_shm;
static void client_recv(conn &c, bool event, bool small = false)
{
	memset(rbuf, 0x5c, 64);
	std::deque<mmsg> &q = event ? c.evt : c.resp;
	if (small && is_shm && !q.empty() && q.front().len > 32) {
		/* a receive buffer that is too small for the message at the head (shm: the call fails and the message stays where it is) */
		size_t blen = 16 + vr_u8(&V) % 16;
		ssize_t rc = event ? qb_ipcc_event_recv(c.cl, rbuf, blen, 0) : qb_ipcc_recv(c.cl, rbuf, blen, 0);
		vop(R, event ? 23 : 22, c.idx, blen);
		VLOG(R, "  client %d %s into a %zu-byte buffer -> %zd (head of the model has %u bytes)\n", c.idx, event ? "event_recv" : "recv", blen, rc, q.front().len);
		VCLASS(R, K_SMALLBUF);
		if (rc > 0) VFAIL(R, "short-buffer-delivery", "client %d: %s into a %zu-byte buffer returned %zd for a message of %u bytes (truncated delivery)", c.idx, event ? "event_recv" : "recv", blen, rc, q.front().len);
		return;		/* the model is unchanged: the message must still come out, once, later */
	}
	ssize_t rc = event ? qb_ipcc_event_recv(c.cl, rbuf, MAXMSG + 4096, 0) : qb_ipcc_recv(c.cl, rbuf, MAXMSG + 4096, 0);
	vop(R, event ? 21 : 20, c.idx, 0);
	VLOG(R, "  client %d %s -> %zd (model holds %zu)\n", c.idx, event ? "event_recv" : "recv", rc, q.size());
	if (rc > 0) {
		if (q.empty()) { VFAIL(R, event ? "event-phantom" : "response-phantom", "client %d received a %s of %zd bytes although every accepted one was already delivered", c.idx, event ? "event" : "response", rc); return; }
		mmsg m = q.front(); size_t bad;
		if ((size_t)rc != m.len) { VFAIL(R, "delivery-length", "client %d: %s seq %u delivered with %zd bytes, sent with %u", c.idx, event ? "event" : "response", m.seq, rc, m.len); return; }
		if (!check_msg(rbuf, rc, c.idx, m.seq, event ? 2 : 1, sizeof(struct qb_ipc_response_header), &bad)) { VFAIL(R, "delivery-bytes", "client %d: %s seq %u differs at byte %zu", c.idx, event ? "event" : "response", m.seq, bad); return; }
		q.pop_front();
	} else if (!q.empty() && server_quiescent()) {
		VFAIL(R, event ? "event-not-delivered" : "response-not-delivered", "client %d: %s returned %zd although %zu accepted %s(s) are queued and the server has nothing left to do", c.idx, event ? "event_recv" : "recv", rc, q.size(), event ? "event" : "response");
	}
}

static void check_readable(void)
{
	if (!server_quiescent()) return;
	for (int i = 0; i < NC; i++) {
		conn &c = C[i]; if (!c.cl || c.evt.empty()) continue;
		int fd = -1; qb_ipcc_fd_get(c.cl, &fd);
		struct pollfd p = { fd, POLLIN, 0 };
		int n = poll(&p, 1, 0);
		VCLASS(R, K_READABLE);
		if (n <= 0 || !(p.revents & POLLIN)) { VFAIL(R, "event-fd-not-readable", "client %d has %zu event(s) queued and the server is quiescent, but the descriptor it polls is not readable (lost wake-up)", i, c.evt.size()); return; }
	}
}

extern "C" void verif_init(void) { sbuf = (uint8_t *)malloc(1 << 20); rbuf = (uint8_t *)malloc(1 << 20); srvbuf = (uint8_t *)malloc(1 << 20); }

extern "C" int verif_case(const uint8_t *data, size_t size, struct verif_report *r)
{
	vr_init(&V, data, size);
	R = r; DISP.clear(); JOBS.clear(); nt_retry = nt_inflight = false; rescue_delay_ms = 2.0;
	for (int i = 0; i < 3; i++) { C[i] = conn(); C[i].idx = -1; }
	enum qb_ipc_type type = vr_bool(&V) ? QB_IPC_SHM : QB_IPC_SOCKET;
	is_shm = type == QB_IPC_SHM;
	size_t want = (size_t[]){ 0, 0, 20000, 65536 }[vr_u8(&V) % 4];
	NC = 1 + vr_u8(&V) % 3; if (vr_u8(&V) % 2) NC = 1;
	VCLASS(r, type == QB_IPC_SHM ? K_SHM : K_SOCK); if (NC == 3) VCLASS(r, K_THREE);
	std::string name = ipc_name();
	struct qb_ipcs_service_handlers sh = { s_accept, s_created, s_msg, s_closed, s_destroyed };
	S = qb_ipcs_create(name.c_str(), 0, type, &sh);
	if (!S) { r->inconclusive = 1; return 0; }
	qb_ipcs_poll_handlers_set(S, &POLLH);
	if (qb_ipcs_run(S) != 0) { r->inconclusive = 1; return 0; }
	for (int i = 0; i < NC; i++) {
		int err; C[i].idx = -2;
		C[i].cl = client_connect(name.c_str(), want, &err);
		if (!C[i].cl) { VFAIL(r, "connect-failed", "client %d could not connect: %d", i, err); return 0; }
		server_drain(50);
		if (!C[i].sv) { VFAIL(r, "created-missing", "connection_created was not called for client %d", i); return 0; }
	}
	MAXMSG = qb_ipcc_get_buffer_size(C[0].cl);
	VLOG(r, "%s transport, %d client(s), negotiated max %zu\n", type == QB_IPC_SHM ? "shm" : "socket", NC, MAXMSG);
	vop(r, 0xC02, type * 16 + NC, MAXMSG);
	fc_state = 0;

	while (!vr_eof(&V) && !r->fail) {
		unsigned op = vr_u8(&V) % 32; conn &c = C[vr_u8(&V) % NC];
		if (op <= 9 || op == 31 || (op == 30 && !is_shm)) {	/* client send / sendv / sendv_recv (the latter with a zero timeout: one thread plays both sides) */
			size_t hs = sizeof(struct qb_ipc_request_header), len = pick_len(hs);
			if (c.req.size() >= 48) continue;	/* the client spins while the notification socket is full: keep clear of it in one thread */
			struct qb_ipc_request_header *h = (struct qb_ipc_request_header *)sbuf;
			fill_msg(sbuf, len, c.idx, c.nreq, 0, hs); h->id = 100; h->size = (int32_t)len;
			ssize_t rc; bool v2 = op >= 8, sr = op >= 30;
			/* the model learns about the request before the call: if the client blocks, the server may consume it before the call returns */
			uint32_t seq = c.nreq;
			c.req.push_back(mmsg{ (uint32_t)len, seq });
			int before = rescues;
			bool resp_waiting = !c.resp.empty() && server_quiescent();	/* sendv_recv: an accepted response is already there to be picked up */
			if (sr) memset(rbuf, 0x5c, 64);
			send_begin();
			if (sr) {
				struct iovec iov[2] = { { sbuf, hs + 3 }, { sbuf + hs + 3, len > hs + 3 ? len - hs - 3 : 0 } };
				if (len > hs + 4 && seq % 2) { struct iovec iov3[3] = { iov[0], { sbuf, 0 }, iov[1] }; rc = qb_ipcc_sendv_recv(c.cl, iov3, 3, rbuf, MAXMSG + 4096, 0); VCLASS(r, K_EMPTYSEG); }
				else if (len > hs + 4) rc = qb_ipcc_sendv_recv(c.cl, iov, 2, rbuf, MAXMSG + 4096, 0);
				else { iov[0].iov_len = len; rc = qb_ipcc_sendv_recv(c.cl, iov, 1, rbuf, MAXMSG + 4096, 0); }
				VCLASS(r, K_SENDRECV);
			}
			else if (v2 && len > hs + 4 && op == 9) { struct iovec iov[3] = { { sbuf, hs + 3 }, { sbuf, 0 }, { sbuf + hs + 3, len - hs - 3 } }; rc = qb_ipcc_sendv(c.cl, iov, 3); VCLASS(r, K_SENDV); VCLASS(r, K_EMPTYSEG); }
			else if (v2 && len > hs + 4) { struct iovec iov[2] = { { sbuf, hs + 3 }, { sbuf + hs + 3, len - hs - 3 } }; rc = qb_ipcc_sendv(c.cl, iov, 2); VCLASS(r, K_SENDV); }
			else rc = qb_ipcc_send(c.cl, sbuf, len);
			send_end();
			if (rescues != before) { VCLASS(r, K_RESCUED); VLOG(r, "  (the client was blocked on the full notification socket until the server ran %d step(s))\n", rescues - before); }
			vop(r, sr ? 7 : 1, c.idx, len);
			VLOG(r, "client %d %s len %zu seq %u -> %zd\n", c.idx, sr ? "sendv_recv(timeout 0)" : "send", len, seq, rc);
			if (r->fail) break;
			if (sr && (rc > 0 || rc == -ETIMEDOUT)) {
				/* the request went out; the receive half either handed out the oldest accepted response or found none */
				if (len > MAXMSG) { VFAIL(r, "oversize-accepted", "client sendv_recv of %zu bytes accepted although the negotiated maximum is %zu", len, MAXMSG); break; }
				c.nreq++;
				if (c.req.size() >= 2) nt_inflight = true;
				if (c.refused_pending) { nt_retry = true; VCLASS(r, K_RETRY); c.refused_pending = false; }
				if (rc > 0) {
					if (c.resp.empty()) { VFAIL(r, "response-phantom", "client %d: sendv_recv returned a response of %zd bytes although every accepted one was already delivered", c.idx, rc); break; }
					mmsg m = c.resp.front(); size_t bad;
					if ((size_t)rc != m.len) { VFAIL(r, "delivery-length", "client %d: sendv_recv delivered response seq %u with %zd bytes, sent with %u", c.idx, m.seq, rc, m.len); break; }
					if (!check_msg(rbuf, rc, c.idx, m.seq, 1, sizeof(struct qb_ipc_response_header), &bad)) { VFAIL(r, "delivery-bytes", "client %d: sendv_recv: response seq %u differs at byte %zu", c.idx, m.seq, bad); break; }
					c.resp.pop_front();
					if (resp_waiting) VCLASS(r, K_SRQUEUED);
				} else if (resp_waiting) {
					VFAIL(r, "response-not-delivered", "client %d: sendv_recv sent its request and returned %zd although %zu accepted response(s) were waiting and the server had nothing left to do", c.idx, rc, c.resp.size()); break;
				}
			}
			else if (rc == (ssize_t)len && !sr) {
				if (len > MAXMSG) { VFAIL(r, "oversize-accepted", "client send of %zu bytes accepted although the negotiated maximum is %zu", len, MAXMSG); break; }
				c.nreq++;
				if (c.req.size() >= 2) nt_inflight = true;
				if (c.refused_pending) { nt_retry = true; VCLASS(r, K_RETRY); c.refused_pending = false; }
			} else if (rc >= 0) { VFAIL(r, "send-partial", "client send of %zu bytes returned %zd", len, rc); break; }
			else {
				/* refused: it must have had no effect, i.e. the tentative entry is still the newest one of the model */
				if (!c.req.empty() && c.req.back().seq == seq && c.req.back().len == (uint32_t)len) c.req.pop_back();
				else { VFAIL(r, "refused-send-delivered", "client %d: send of request seq %u returned %zd but the server has already been handed that request", c.idx, seq, rc); break; }
				if (len <= MAXMSG) c.refused_pending = true; if (rc == -EAGAIN && !fc_state) VCLASS(r, K_FULL);
			}
		}
		else if (op <= 15) { vop(r, 2, 0, 0); int did = server_step(vr_u8(&V)); VLOG(r, "server step -> %d\n", did); }
		else if (op <= 18) client_recv(c, false, op == 18);
		else if (op <= 21) client_recv(c, true, op == 21);
		else if (op <= 23 && c.sv) {	/* server sends from outside the callback */
			if (op == 22 && c.owed_responses > 0) { c.owed_responses--; server_send(c, false, "outside"); VCLASS(r, K_RESPOUT); }
			else server_send(c, true, "outside");
		}
		else if (op == 24) {		/* rate limit / flow control */
			static const enum qb_ipcs_rate_limit rl[] = { QB_IPCS_RATE_OFF, QB_IPCS_RATE_OFF_2, QB_IPCS_RATE_NORMAL, QB_IPCS_RATE_FAST, QB_IPCS_RATE_SLOW };
			unsigned k = vr_u8(&V) % 5;
			qb_ipcs_request_rate_limit(S, rl[k]);
			int nf = k == 0 ? 1 : k == 1 ? 2 : 0;
			bool busy = false; for (int i = 0; i < NC; i++) if (!C[i].req.empty()) busy = true;
			if (nf != fc_state && busy) VCLASS(r, K_FC);
			fc_state = nf;
			vop(r, 3, k, 0); VLOG(r, "rate limit %u (flow control %d)\n", k, fc_state);
		}
		else if (op == 25) { unsigned m = vr_u8(&V) % 3; qb_ipcc_fc_enable_max_set(c.cl, m); vop(r, 4, c.idx, m); VLOG(r, "client %d fc_enable_max %u\n", c.idx, m); }
		else if (op == 26 && c.sv) {	/* shrink the notification socket so that deferred notifications happen */
			int v = 1; struct qb_ipcs_connection *sc = (struct qb_ipcs_connection *)c.sv;
			setsockopt(sc->setup.u.us.sock, SOL_SOCKET, SO_SNDBUF, &v, sizeof v);
			setsockopt(c.cl->setup.u.us.sock, SOL_SOCKET, SO_RCVBUF, &v, sizeof v);
			vop(r, 5, c.idx, 0); VLOG(r, "client %d: notification socket buffers shrunk\n", c.idx);
		}
		else if (op == 30 && c.sv && type == QB_IPC_SHM) {	/* shrink the client-to-server notification socket: a handful of unprocessed requests fills it and the next send blocks */
			int v = 1; struct qb_ipcs_connection *sc = (struct qb_ipcs_connection *)c.sv;
			setsockopt(c.cl->setup.u.us.sock, SOL_SOCKET, SO_SNDBUF, &v, sizeof v);
			setsockopt(sc->setup.u.us.sock, SOL_SOCKET, SO_RCVBUF, &v, sizeof v);
			rescue_delay_ms = (vr_u8(&V) % 3 == 0) ? 150.0 : 2.0;
			rescue_start();
			vop(r, 6, c.idx, rescue_delay_ms > 100); VLOG(r, "client %d: client-to-server notification socket shrunk; a stuck client is left waiting for %.0f ms before the server runs\n", c.idx, (double)rescue_delay_ms);
		}
		else if (op <= 29 && c.sv) {	/* a burst of events */
			int n = 2 + vr_u8(&V) % 30;
			for (int k = 0; k < n && !r->fail; k++) server_send(c, true, "burst");
		}
		if (!r->fail) {
			for (int i = 0; i < NC; i++) if (C[i].sv && ((struct qb_ipcs_connection *)C[i].sv)->outstanding_notifiers > 0) VCLASS(r, K_DEFER);
			check_readable();
		}
	}
	/* ---- drain: everything accepted must come out, nothing else */
	if (!r->fail) {
		/* phase 0: events do not depend on the request rate limit - whatever it is set to now, every queued event must reach the client
		   once the server has had its turns (deferred notifications are flushed from the server's loop when the socket has room again) */
		for (int round = 0; round < 200 && !r->fail; round++) {
			bool progress = false;
			for (int k = 0; k < 24; k++) server_step((unsigned)k);	/* every ready descriptor gets its turn (a flow-controlled one stays ready without making progress) */
			for (int i = 0; i < NC && !r->fail; i++)
				while (!C[i].evt.empty() && !r->fail) { size_t b = C[i].evt.size(); client_recv(C[i], true); if (C[i].evt.size() == b) break; progress = true; }
			if (!progress) break;
		}
		for (int i = 0; i < NC && !r->fail; i++) if (!C[i].evt.empty()) {
			int fd = -1; qb_ipcc_fd_get(C[i].cl, &fd);
			struct pollfd p = { fd, POLLIN, 0 };
			int n = poll(&p, 1, 0);
			{ struct qb_ipcs_connection *sc = (struct qb_ipcs_connection *)C[i].sv; int ev = -1; for (auto &e : DISP) if (sc && e.fd == sc->setup.u.us.sock) ev = e.events;
			  VLOG(r, "   server side: outstanding_notifiers %d, registered events 0x%x, fc_enabled %d\n", sc ? sc->outstanding_notifiers : -1, ev, sc ? sc->fc_enabled : -1); }
			VFAIL(r, n > 0 && (p.revents & POLLIN) ? "event-not-delivered" : "event-fd-not-readable", "client %d has %zu accepted event(s) queued, the server had its turns (flow control %d), but %s", i, C[i].evt.size(), (int)fc_state,
			      n > 0 && (p.revents & POLLIN) ? "event_recv does not hand them out" : "the descriptor it polls is not readable and event_recv returns nothing");
		}
		if (fc_state) VCLASS(r, K_EVFC);
	}
	if (!r->fail) {
		qb_ipcs_request_rate_limit(S, QB_IPCS_RATE_NORMAL);
		for (int round = 0; round < 400 && !r->fail; round++) {
			bool progress = false;
			for (int k = 0; k < 20; k++) if (server_step(0)) progress = true;
			for (int i = 0; i < NC && !r->fail; i++) {
				while (!C[i].resp.empty() && !r->fail) { size_t b = C[i].resp.size(); client_recv(C[i], false); if (C[i].resp.size() == b) break; progress = true; }
				while (!C[i].evt.empty() && !r->fail) { size_t b = C[i].evt.size(); client_recv(C[i], true); if (C[i].evt.size() == b) break; progress = true; }
			}
			if (!progress) break;
		}
		for (int i = 0; i < NC && !r->fail; i++) {
			if (!C[i].req.empty()) VFAIL(r, "request-lost", "client %d: %zu accepted request(s) were never handed to the message callback", i, C[i].req.size());
			else if (!C[i].resp.empty()) VFAIL(r, "response-not-delivered", "client %d: %zu accepted response(s) never came out", i, C[i].resp.size());
			else if (!C[i].evt.empty()) VFAIL(r, "event-not-delivered", "client %d: %zu accepted event(s) never came out", i, C[i].evt.size());
			else {
				ssize_t rc = qb_ipcc_recv(C[i].cl, rbuf, MAXMSG + 4096, 0); if (rc > 0) VFAIL(r, "response-phantom", "client %d received an extra response of %zd bytes", i, rc);
				rc = qb_ipcc_event_recv(C[i].cl, rbuf, MAXMSG + 4096, 0); if (rc > 0 && !r->fail) VFAIL(r, "event-phantom", "client %d received an extra event of %zd bytes", i, rc);
			}
		}
	}
	r->nontrivial = nt_retry && nt_inflight;
	if (nt_inflight) VCLASS(r, K_INFLIGHT);
	if (!r->fail) {
		for (int i = 0; i < NC; i++) if (C[i].cl) { qb_ipcc_disconnect(C[i].cl); C[i].cl = NULL; }
		server_drain(200);
		qb_ipcs_destroy(S);
		server_drain(200);
	}
	return 0;
}
