/*
 * C13 - log line formatting: bounded by the target's line limit, follows the documented directives.
 *
 * One case = one forked process: qb_log_init, a custom target configured from the case (max line
 * length, ellipsis, extended, format string, tag stringifier), then 1-3 log calls through
 * qb_log_from_external_source (the printf path).  The custom logger (a) compares the message it is
 * handed with vsnprintf's text, truncated and marker-processed as documented, and (b) formats the
 * line with qb_log_target_format into a heap buffer of EXACTLY max_line_length bytes and compares it
 * with a naive re-implementation of the directive language.  ASan watches every buffer.
 */
#include <string>
#include <vector>
#include <cstdarg>
extern "C" {
#include "os_base.h"
#include <qb/qblog.h>
#include "log_int.h"
#include "verif.h"
}

const char *verif_property = "C13";
const char *verif_class_names[] = { "near_limit", "beyond_limit", "empty_rendering", "width_exceeds_room", "ellipsis", "tiny_limit", "big_limit",
	"format_ends_in_directive", "unknown_directive", "long_format", "empty_message", "trailing_newline", "extended_marker", "rejected_limit",
	"right_align", "static_directive", "tag_stringify", "two_targets", "priority_beyond_trace", NULL };
enum { K_NEAR, K_BEYOND, K_EMPTY, K_WIDE, K_ELL, K_TINY, K_BIG, K_ENDDIR, K_UNK, K_LONGFMT, K_EMPTYMSG, K_NL, K_XC, K_REJ, K_RALIGN, K_STATIC, K_TAGS, K_TWO, K_HIPRIO };
const char *verif_rule =
	"case = max_line_length from {invalid: 0, negative, 4097; valid: 1..5, 16, 17, 64, 511..513, 1024, 4095, 4096}, ellipsis, extended, a format string from a grammar "
	"(literals, %n %f %l %p %t %T %b %g %N %P %H, '-', widths 0..5000, unknown directives, formats ending inside a directive, 1..6000 chars), call-site strings empty..long, "
	"tags with/without a stringifier, 1-3 messages (empty, at/around/beyond the limit, trailing newline, \\a marker) logged through the printf path; "
	"non-trivial = the unbounded rendering is within +-3 bytes of the limit or longer, or is empty, or a field width exceeds the remaining room; distinct = hash of the decoded case";
int verif_fork_per_case = 1;
int verif_case_timeout_ms = 20000;
int verif_hang_is_violation = 0;
size_t verif_max_size = 260;
size_t verif_min_size = 10;

static struct verif_report *R;
static size_t L[2] = { 512, 512 };	/* effective line limit of the two custom targets */
static bool ELL[2], EXT[2];
static std::string FMT[2];	/* format as given to qb_log_format_set ("" = default) */
static bool has_fmt[2];
static int TGT[2] = { -1, -1 };
static bool stringify_on;
static std::string expect_msg_full;	/* vsnprintf text of the current call */
static size_t M;			/* largest limit among the enabled targets (the message is formatted with it) */
static int deliveries[2];
static bool nontrivial;
static std::string last_plain;	/* the line before the ellipsis was applied */
static char hostname_buf[256];

static const char *tags_fn(uint32_t tags)
{
	static char b[32];
	snprintf(b, sizeof b, "T%x", tags);
	return b;
}

/* ---- the reference: what the documented directive language prescribes, clipped the way a bounded writer must */
static std::string field(const std::string &text, size_t width, bool ralign, size_t room, bool *wide)
{
	/* room = bytes left in the line buffer including the terminator */
	if (room <= 1) return "";
	size_t cutoff = width ? width : text.size();
	if (cutoff > room - 1) { cutoff = room - 1; if (width) *wide = true; }
	size_t len = std::min(text.size(), cutoff);
	std::string pad(cutoff - len, ' ');
	return ralign ? pad + text.substr(0, len) : text.substr(0, len) + pad;
}

struct dir { bool ralign; size_t width; char ch; size_t next; bool ended; };
static dir parse_dir(const std::string &f, size_t i)	/* f[i] == '%' */
{
	dir d{ false, 0, 0, 0, false };
	size_t j = i + 1;
	if (j < f.size() && f[j] == '-') { d.ralign = true; j++; }
	if (j < f.size() && isdigit((unsigned char)f[j])) d.width = (size_t)atoi(f.c_str() + j);
	while (j < f.size() && isdigit((unsigned char)f[j])) j++;
	if (j >= f.size()) { d.ended = true; d.ch = 0; d.next = j; }
	else { d.ch = f[j]; d.next = j + 1; }
	return d;
}

/* static pass (qb_log_format_set): %P %N %H are expanded, everything else is kept verbatim; not limited by the line length */
static std::string static_pass(const std::string &f)
{
	std::string o; size_t i = 0; bool wide;
	while (i < f.size()) {
		if (f[i] != '%') { o.push_back(f[i++]); continue; }
		dir d = parse_dir(f, i);
		std::string text; bool known = true;
		if (d.ch == 'P') text = std::to_string(getpid());
		else if (d.ch == 'N') text = "verif";
		else if (d.ch == 'H') text = hostname_buf;
		else known = false;
		if (known) { VCLASS(R, K_STATIC); o += field(text, d.width, d.ralign, (size_t)1 << 20, &wide); }
		else o += f.substr(i, d.next - i);
		i = d.next;
		if (d.ended) break;
	}
	return o;
}

static std::string render(int k, const struct qb_log_callsite *cs, const struct timespec *ts, const std::string &msg, bool *wide, size_t *unbounded_len)
{
	std::string f = has_fmt[k] ? static_pass(FMT[k]) : std::string("[%p] %b");
	std::string o; size_t i = 0; size_t lim = L[k];
	size_t ulen = 0;
	static const char *prio[] = { "emerg", "alert", "crit", "error", "warning", "notice", "info", "debug", "trace" };
	static const char *mon[] = { "Jan", "Feb", "Mar", "Apr", "May", "Jun", "Jul", "Aug", "Sep", "Oct", "Nov", "Dec" };
	while (i < f.size() && o.size() < lim - 1) {
		if (f[i] != '%') { o.push_back(f[i++]); ulen++; continue; }
		dir d = parse_dir(f, i);
		std::string text; char tb[128]; struct tm tm; time_t s = ts->tv_sec;
		switch (d.ch) {
		case 'g': text = stringify_on ? tags_fn(cs->tags) : ""; break;
		case 'n': text = cs->function; break;
		case 'f': text = cs->filename; break;
		case 'l': text = std::to_string(cs->lineno); break;
		case 'p': text = prio[cs->priority > 8 ? 8 : cs->priority]; break;
		case 't': localtime_r(&s, &tm); snprintf(tb, sizeof tb, "%s %02d %02d:%02d:%02d", mon[tm.tm_mon], tm.tm_mday, tm.tm_hour, tm.tm_min, tm.tm_sec); text = tb; break;
		case 'T': localtime_r(&s, &tm); snprintf(tb, sizeof tb, "%s %02d %02d:%02d:%02d.%03llu", mon[tm.tm_mon], tm.tm_mday, tm.tm_hour, tm.tm_min, tm.tm_sec, (unsigned long long)(ts->tv_nsec / 1000000)); text = tb; break;
		case 'b': text = msg; break;
		default: text = ""; VCLASS(R, K_UNK); break;
		}
		if (d.ralign) VCLASS(R, K_RALIGN);
		ulen += d.width ? d.width : text.size();
		o += field(text, d.width, d.ralign, lim - o.size(), wide);
		i = d.next;
		if (d.ended) { VCLASS(R, K_ENDDIR); break; }
	}
	for (; i < f.size(); i++) ulen++;	/* rough: what was not rendered counts towards the unbounded length */
	*unbounded_len = ulen;
	bool filled = o.size() >= lim - 1;
	size_t idx = o.size();
	if (idx > 0 && o[idx - 1] == '\n') o.pop_back();
	last_plain = o;
	if (ELL[k] && filled && idx >= 3) { o.resize(idx, ' '); o.replace(idx - 3, 3, "..."); }
	return o;
}

static void logger_common(int k, int32_t t, struct qb_log_callsite *cs, struct timespec *ts, const char *msg)
{
	deliveries[k]++;
	if (R->fail) return;
	/* (b) the message handed to a logger: printf's text, cut to the largest limit, one trailing newline dropped when complete */
	std::string em = expect_msg_full;
	if (em.size() > M - 1) em.resize(M - 1);
	else if (!em.empty() && em.back() == '\n') em.pop_back();
	size_t xc = em.find('\a');
	if (xc != std::string::npos) {
		VCLASS(R, K_XC);
		if (EXT[k] && xc + 1 < em.size()) em[xc] = '|'; else em.resize(xc);
	}
	if (em != msg) {
		size_t q = 0; while (q < em.size() && msg[q] == em[q]) q++;
		VFAIL(R, "message-text", "target %d: message handed to the logger differs from printf's text at offset %zu (got length %zu, expected %zu)", k, q, strlen(msg), em.size());
		return;
	}
	/* (a) the formatted line, into exactly max_line_length bytes */
	size_t lim = L[k];
	char *out = (char *)malloc(lim);
	memset(out, 0x7e, lim);
	qb_log_target_format(t, cs, ts, msg, out);
	if (!memchr(out, 0, lim)) { VFAIL(R, "line-unterminated", "target %d: formatted line is not NUL-terminated within max_line_length=%zu", k, lim); free(out); return; }
	bool wide = false; size_t ulen = 0;
	std::string exp = render(k, cs, ts, msg, &wide, &ulen);
	if (wide) VCLASS(R, K_WIDE);
	if (exp.empty()) VCLASS(R, K_EMPTY);
	if (ulen + 3 >= lim - 1 && ulen <= lim + 2) VCLASS(R, K_NEAR);
	if (ulen > lim - 1) VCLASS(R, K_BEYOND);
	if (ulen + 3 >= lim - 1 || exp.empty() || wide) nontrivial = true;
	VLOG(R, "  target %d line(%zu/%zu): \"%.80s\"%s\n", k, strlen(out), lim, out, strlen(out) > 80 ? "..." : "");
	if (exp != out) {
		/* a line that fits exactly is "filled" for the implementation: with ellipsis on, both renderings are acceptable */
		bool ok = false;
		if (ELL[k] && ulen == lim - 1 && last_plain == out) ok = true;
		if (!ok) {
			size_t q = 0; while (q < exp.size() && out[q] == exp[q]) q++;
			VFAIL(R, "line-text", "target %d: line differs from the directive semantics at offset %zu: got \"%.40s\" expected \"%.40s\" (limit %zu, got length %zu, expected %zu)",
			      k, q, out + (q > 8 ? q - 8 : 0), exp.c_str() + (q > 8 ? q - 8 : 0), lim, strlen(out), exp.size());
		}
	}
	free(out);
}
static void logger0(int32_t t, struct qb_log_callsite *cs, struct timespec *ts, const char *msg) { logger_common(0, t, cs, ts, msg); }
static void logger1(int32_t t, struct qb_log_callsite *cs, struct timespec *ts, const char *msg) { logger_common(1, t, cs, ts, msg); }
static void close_fn(int32_t t) { (void)t; }
static void reload_fn(int32_t t) { (void)t; }

extern "C" void verif_init(void) { gethostname(hostname_buf, sizeof hostname_buf); hostname_buf[sizeof hostname_buf - 1] = 0; }

static std::string gen_format(struct vr *v, struct verif_report *r)
{
	std::string f;
	int ntok = 1 + vr_u8(v) % 8;
	static const char dirs[] = "nflptTbgNPHbbpzq% +-";	/* blank and sign are not part of the directive grammar: unknown directives, the digits after them are literal text */
	for (int i = 0; i < ntok; i++) {
		unsigned k = vr_u8(v) % 8;
		if (k <= 2) {		/* literal */
			static const char *lits[] = { " ", "[", "] ", ": ", "x", "libqb ", "-", "\n", "100 ", "6n|", "3b", "12N " };
			f += lits[vr_u8(v) % 12];
		} else if (k == 3 && vr_u8(v) % 6 == 0) {	/* long literal */
			size_t n = 200 + vr_u16(v) % 3000; f.append(n, 'L'); VCLASS(r, K_LONGFMT);
		} else {		/* directive */
			f += '%';
			if (vr_u8(v) % 4 == 0) f += '-';
			switch (vr_u8(v) % 8) {
			case 0: f += std::to_string(vr_u8(v) % 40); break;
			case 1: f += std::to_string(vr_u16(v) % 5001); break;
			case 2: f += "0"; break;
			case 3: f += "00" + std::to_string(vr_u8(v) % 20); break;
			default: break;
			}
			f += dirs[vr_u8(v) % (sizeof dirs - 1)];
		}
	}
	switch (vr_u8(v) % 12) {	/* formats that end inside a directive */
	case 0: f += "%"; break;
	case 1: f += "%-"; break;
	case 2: f += "%12"; break;
	case 3: f += "%-7"; break;
	default: break;
	}
	return f;
}

static void do_log(const char *fn, const char *file, const char *fmt, uint8_t prio, uint32_t line, uint32_t tags, ...)
{
	va_list ap, ap2; va_start(ap, tags); va_copy(ap2, ap);
	int n = vsnprintf(NULL, 0, fmt, ap2); va_end(ap2);
	std::string s((size_t)n + 1, 0);
	va_copy(ap2, ap); vsnprintf(&s[0], (size_t)n + 1, fmt, ap2); va_end(ap2);
	s.resize(n);
	expect_msg_full = s;
	qb_log_from_external_source_va(fn, file, fmt, prio, line, tags, ap);
	va_end(ap);
}

extern "C" int verif_case(const uint8_t *data, size_t size, struct verif_report *r)
{
	struct vr v; vr_init(&v, data, size);
	R = r; nontrivial = false;
	L[0] = L[1] = 512; ELL[0] = ELL[1] = EXT[0] = EXT[1] = false; has_fmt[0] = has_fmt[1] = false; deliveries[0] = deliveries[1] = 0;
	static const int32_t lens[] = { 0, -5, 4097, 1, 2, 3, 4, 5, 16, 17, 64, 511, 512, 513, 1024, 4095, 4096, 30, 100, 200 };
	int ntargets = 1 + (vr_u8(&v) % 5 == 0);
	stringify_on = vr_bool(&v);

	qb_log_init("verif", LOG_USER, LOG_INFO);
	qb_log_ctl(QB_LOG_SYSLOG, QB_LOG_CONF_ENABLED, QB_FALSE);
	qb_log_tags_stringify_fn_set(stringify_on ? tags_fn : NULL);
	if (stringify_on) VCLASS(r, K_TAGS);
	if (ntargets == 2) VCLASS(r, K_TWO);
	for (int k = 0; k < ntargets; k++) {
		TGT[k] = qb_log_custom_open(k ? logger1 : logger0, close_fn, reload_fn, NULL);
		if (TGT[k] < 0) { r->inconclusive = 1; return 0; }
		int32_t want = lens[vr_u8(&v) % (sizeof lens / sizeof lens[0])];
		int rc = qb_log_ctl(TGT[k], QB_LOG_CONF_MAX_LINE_LEN, want);
		bool valid = want >= 1 && want <= 4096;
		VLOG(r, "target %d: MAX_LINE_LEN %d -> %d\n", k, want, rc);
		if (valid) { if (rc != 0) { VFAIL(r, "limit-refused", "qb_log_ctl(MAX_LINE_LEN, %d) returned %d", want, rc); return 0; } L[k] = want; }
		else { VCLASS(r, K_REJ); if (rc == 0) { VFAIL(r, "limit-accepted", "qb_log_ctl(MAX_LINE_LEN, %d) was accepted; no line can be terminated within such a limit", want); return 0; } }
		if (L[k] <= 5) VCLASS(r, K_TINY);
		if (L[k] > 512) VCLASS(r, K_BIG);
		ELL[k] = vr_bool(&v); EXT[k] = vr_bool(&v);
		qb_log_ctl(TGT[k], QB_LOG_CONF_ELLIPSIS, ELL[k]);
		qb_log_ctl(TGT[k], QB_LOG_CONF_EXTENDED, EXT[k]);
		if (ELL[k]) VCLASS(r, K_ELL);
		if (vr_u8(&v) % 8 != 0) { FMT[k] = gen_format(&v, r); has_fmt[k] = true; qb_log_format_set(TGT[k], FMT[k].c_str()); }
		VLOG(r, "target %d: limit %zu ellipsis %d extended %d format(%zu) \"%.100s\"%s\n", k, L[k], ELL[k], EXT[k], FMT[k].size(), has_fmt[k] ? FMT[k].c_str() : "<default>", FMT[k].size() > 100 ? "..." : "");
		vop(r, L[k] * 4 + ELL[k] * 2 + EXT[k], vhash_bytes(FMT[k].data(), FMT[k].size()), has_fmt[k]);
		qb_log_filter_ctl(TGT[k], QB_LOG_FILTER_ADD, QB_LOG_FILTER_FILE, "*", 255);	/* every value of the 8-bit priority a call site can carry */
		qb_log_ctl(TGT[k], QB_LOG_CONF_ENABLED, QB_TRUE);
	}
	M = L[0]; if (ntargets == 2 && L[1] > M) M = L[1];

	int ncalls = 1 + vr_u8(&v) % 3;
	static std::vector<std::string> keep; keep.clear(); keep.reserve(16);
	for (int c = 0; c < ncalls && !r->fail; c++) {
		std::string fn, file, body;
		switch (vr_u8(&v) % 5) { case 0: fn = ""; break; case 1: fn.assign(300, 'f'); break; default: fn = "my_function"; break; }
		switch (vr_u8(&v) % 4) { case 0: file.assign(200, 'p'); file += ".c"; break; default: file = "src/file.c"; break; }
		size_t lim = L[vr_u8(&v) % ntargets];
		switch (vr_u8(&v) % 10) {
		case 0: body = ""; VCLASS(r, K_EMPTYMSG); break;
		case 1: body = "hello world"; break;
		case 2: body.assign(lim > 2 ? lim - 2 + vr_u8(&v) % 5 : vr_u8(&v) % 5, 'm'); break;	/* around the limit */
		case 3: body.assign(lim + 1 + vr_u16(&v) % 3000, 'M'); break;				/* far beyond */
		case 4: body = "line with newline\n"; VCLASS(r, K_NL); break;
		case 5: body.assign(lim > 1 ? lim - 2 : 0, 'n'); body += "\n"; VCLASS(r, K_NL); break;	/* newline at the cut */
		case 6: body = "main text\aextended info"; break;
		case 7: body = "\aonly extended"; break;
		case 8: body = "ends with marker\a"; break;
		default: body.assign(vr_u16(&v) % 700, 'r'); break;
		}
		keep.push_back(fn); const char *fnp = keep.back().c_str();
		keep.push_back(file); const char *filep = keep.back().c_str();
		uint8_t pb = vr_u8(&v), prio = pb >= 225 ? 9 + (pb - 225) * 8 : pb % 9;	/* now and then a priority beyond LOG_TRACE (external call sites can carry any 8-bit value; %p shows them as "trace") */
		if (prio > 8) VCLASS(r, K_HIPRIO);
		uint32_t line = 1 + vr_u16(&v) % 2000; uint32_t tags = vr_u8(&v);
		int before[2] = { deliveries[0], deliveries[1] };
		unsigned style = vr_u8(&v) % 4;
		vop(r, vhash_bytes(body.data(), body.size()), fn.size() * 1000 + file.size(), prio * 65536u + line);
		VLOG(r, "log #%d prio=%u line=%u tags=%u fn(%zu) file(%zu) body(%zu) style=%u \"%.60s\"\n", c, prio, line, tags, fn.size(), file.size(), body.size(), style, body.c_str());
		if (style == 0) { keep.push_back(body); do_log(fnp, filep, keep.back().c_str()[0] && !strchr(keep.back().c_str(), '%') ? keep.back().c_str() : "%s", prio, line, tags, keep.back().c_str()); }
		else if (style == 1) do_log(fnp, filep, "%s", prio, line, tags, body.c_str());
		else if (style == 2) do_log(fnp, filep, "%d:%s", prio, line, tags, (int)line, body.c_str());
		else do_log(fnp, filep, "%s%s", prio, line, tags, body.c_str(), "");
		/* delivered exactly once per enabled target, unless the marker handling leaves nothing to log */
		for (int k = 0; k < ntargets && !r->fail; k++) {
			std::string em = expect_msg_full; if (em.size() > M - 1) em.resize(M - 1);
			bool suppressed = !EXT[k] && !em.empty() && em[0] == '\a';
			int got = deliveries[k] - before[k];
			if (got != (suppressed ? 0 : 1)) VFAIL(r, "delivery-count", "target %d received the message %d times (expected %d)", k, got, suppressed ? 0 : 1);
		}
	}
	r->nontrivial = nontrivial;
	if (!r->fail) qb_log_fini();
	return 0;
}
