/*
 * C09 - timers never fire early, the loop never sleeps past the next expiry, queries agree.
 *
 * Virtual monotonic clock (clock_gettime interposed, optional tick per read) and virtual sleeping
 * (epoll_wait interposed: a blocking wait advances the clock by the requested timeout, or - the case's
 * choice - by less).  A case is a history of timer adds (durations from 0 to the full 64-bit range),
 * deletes, queries and jobs, issued from outside the loop and from inside callbacks.
 */
#include <deque>
#include <vector>
#include <string>
#include <climits>
extern "C" {
#include "os_base.h"
#include <qb/qbloop.h>
#include "verif.h"
#include "vclock.h"
#include "vepoll.h"
void verif_random_reset(uint32_t);
}

const char *verif_property = "C09";
const char *verif_class_names[] = { "three_pending_delete_nonhead", "duration_beyond_31bit_ms", "duration_beyond_32bit_ms", "duration_near_2_63", "duration_near_2_64",
	"zero_duration", "early_wakeup", "clock_tick", "job_throttle_seen", "delete_from_callback", "query_pending", "query_after_fire", "many_pending", "heap_profile", "self_removing_descriptor", NULL };
enum { K_NONHEAD, K_31, K_32, K_63, K_64, K_ZERO, K_EARLYWAKE, K_TICK, K_THROTTLE, K_DELCB, K_QPEND, K_QFIRED, K_MANY, K_HEAP, K_FD };
const char *verif_rule =
	"case = clock behaviour (tick per read 0/1us/100us, early wake-ups) + a history of timer adds with durations from {0, 1 ns, sub-ms, ms-scale, 2^31-1 ms +-1, 2^32 ms +-1, 2^63 ns, 2^64-1 ns}, "
	"deletes (any handle), expire_time_remaining / is_running queries and jobs, from outside the loop and from inside callbacks; up to 30 timers pending at once; "
	"non-trivial = >= 3 timers pending with a delete of a non-head entry, or a duration whose millisecond value exceeds 2^31-1; distinct = hash of decoded history";
int verif_fork_per_case = 1;
int verif_case_timeout_ms = 20000;
int verif_hang_is_violation = 1;
size_t verif_max_size = 400;
size_t verif_min_size = 12;

struct mtimer { qb_loop_timer_handle h; int prio; int st; /* 0 pending 1 fired 2 deleted */ uint64_t add, dur, due; bool sat; /* add+dur does not fit: due = UINT64_MAX */ bool longt; };
static std::deque<mtimer> T;
static std::deque<int> TOKS;
static qb_loop_t *L;
static struct verif_report *R;
static struct vr V;
static int iterations, budget_left, stop_called;
static bool winding_down, nontriv, jobs_queued_this_iter, early_wake;
static uint64_t tick_ns;
static uint64_t last_fire_due[3]; static bool have_last[3];
static int jobs_waiting;
static bool in_cb;

#define LONG_NS (3600ULL * 1000000000ULL)	/* beyond an hour: never reached by the virtual run, judged by the requested timeouts only */

static void do_actions(int n);

static int pending_count(void) { int c = 0; for (auto &t : T) if (t.st == 0) c++; return c; }
static bool earliest_due(uint64_t *out) { bool any = false; uint64_t m = UINT64_MAX; for (auto &t : T) if (t.st == 0) { any = true; if (t.due < m) m = t.due; } *out = m; return any; }
static bool short_pending(void) { for (auto &t : T) if (t.st == 0 && !t.longt) return true; return false; }

static void timer_cb(void *data)
{
	int id = *(int *)data; mtimer &m = T[id];
	uint64_t now = vclock_mono();
	VLOG(R, " [it %d] timer %d fires at +%llu (due +%llu)\n", iterations, id, (unsigned long long)(now - 1000000000ULL), (unsigned long long)(m.due - 1000000000ULL));
	if (m.st == 1) { VFAIL(R, "timer-ran-twice", "timer %d fired twice", id); return; }
	if (m.st == 2) { VFAIL(R, "callback-after-delete", "timer %d fired after it was deleted", id); return; }
	if (now <= m.due || m.sat) { VFAIL(R, "timer-early", "timer %d with duration %llu ns added at %llu fired at %llu: %s", id, (unsigned long long)m.dur, (unsigned long long)m.add, (unsigned long long)now, m.sat ? "its expiry is beyond the end of the clock range" : "before the duration had elapsed"); return; }
	/* lateness: the loop may not have slept past the expiry by more than the slack */
	uint64_t late = now - m.due, slack = 52000000ULL + 40 * tick_ns + 200000ULL;
	if (late > slack) { VFAIL(R, "timer-late", "timer %d fired %llu ns after its expiry (slack %llu)", id, (unsigned long long)late, (unsigned long long)slack); return; }
	if (have_last[m.prio] && m.due + 4 * tick_ns + 1 < last_fire_due[m.prio]) { VFAIL(R, "timer-order", "timer %d (expiry %llu) of priority %d fired after a timer with later expiry %llu", id, (unsigned long long)m.due, m.prio, (unsigned long long)last_fire_due[m.prio]); return; }
	last_fire_due[m.prio] = m.due; have_last[m.prio] = true;
	m.st = 1;
	in_cb = true; do_actions(vr_u8(&V) % 3); in_cb = false;
}
struct fdsrc { int p[2]; int how; };
static int32_t fd_cb(int32_t fd, int32_t revents, void *data)
{
	(void)revents;
	fdsrc *f = (fdsrc *)data; char b; int rc = 0;
	if (read(fd, &b, 1) != 1) {}
	jobs_waiting--;
	VLOG(R, " [it %d] one-shot descriptor %d ready\n", iterations, fd);
	if (f->how == 2) rc = -1; else if (qb_loop_poll_del(L, fd) != 0) VFAIL(R, "poll-del-refused", "qb_loop_poll_del of a registered descriptor failed inside its own callback");
	close(f->p[0]); close(f->p[1]); delete f;
	in_cb = true; do_actions(vr_u8(&V) % 2); in_cb = false;
	return rc;
}
static void job_cb(void *data) { (void)data; jobs_waiting--; in_cb = true; do_actions(vr_u8(&V) % 2); in_cb = false; }

static void hook(int n_ready, int timeout_ms)
{
	iterations++;
	uint64_t now = vclock_mono(), due;
	bool any = earliest_due(&due);
	if (any) {
		if (timeout_ms < 0) { if (!R->fail) VFAIL(R, "unbounded-sleep", "the loop asked to wait forever (timeout %d) while %d timer(s) are pending (earliest in %llu ns)", timeout_ms, pending_count(), (unsigned long long)(due > now ? due - now : 0)); stop_called = 1; qb_loop_stop(L); return; }
		uint64_t wake = now + (uint64_t)timeout_ms * 1000000ULL;
		uint64_t limit = (due > now ? due : now) + 1000000ULL + 40 * tick_ns + (jobs_queued_this_iter ? 50000000ULL : 0);
		if (limit < due) limit = UINT64_MAX;	/* saturate */
		if (wake > limit && !R->fail) { VFAIL(R, "oversleep", "the loop asked to sleep %d ms at %llu although the earliest timer expires at %llu (allowed wake-up by %llu)", timeout_ms, (unsigned long long)now, (unsigned long long)due, (unsigned long long)limit); stop_called = 1; qb_loop_stop(L); return; }
	}
	if (timeout_ms == 50 && jobs_queued_this_iter) VCLASS(R, K_THROTTLE);
	jobs_queued_this_iter = false;
	if (budget_left <= 0) winding_down = true;
	if (winding_down && !short_pending() && jobs_waiting <= 0) { stop_called = 1; qb_loop_stop(L); return; }
	if (iterations > 4000) { if (!R->fail) VFAIL(R, "never-dispatched", "after %d iterations %d timer(s) are still pending", iterations, pending_count()); stop_called = 1; qb_loop_stop(L); return; }
	if (!any && jobs_waiting <= 0 && timeout_ms < 0) { stop_called = 3; qb_loop_stop(L); return; }	/* idle: more operations from outside */
	if (!short_pending() && jobs_waiting <= 0 && !winding_down) { stop_called = 3; qb_loop_stop(L); return; }	/* only far-away timers left */
	/* sleep virtually (a ready descriptor ends the real epoll_wait at once) */
	if (n_ready > 0) vclock_advance(20000);
	else if (timeout_ms > 0) {
		uint64_t adv = (uint64_t)timeout_ms * 1000000ULL;
		if (early_wake && vr_u8(&V) % 3 == 0) { adv = adv / (2 + vr_u8(&V) % 3); VCLASS(R, K_EARLYWAKE); }
		vclock_advance(adv ? adv : 1000);
	} else vclock_advance(20000);
}

static bool heap_profile;	/* a third of the cases: many timers of comparable (ms-scale) durations, deletes aimed at pending ones - what orders the timer heap */
static void add_timer(void)
{
	static const uint64_t MS = 1000000ULL;
	uint64_t d; unsigned cls = vr_u8(&V) % 14, j = vr_u8(&V) % 3;
	if (heap_profile) cls = 3;
	switch (cls) {
	case 0: d = 0; VCLASS(R, K_ZERO); break;
	case 1: d = 1; break;
	case 2: d = 1000 + vr_u16(&V) * 13ULL; break;			/* sub-ms */
	case 3: case 4: case 5: d = (1 + vr_u8(&V) % (heap_profile ? 120 : 40)) * MS + vr_u16(&V); break;	/* ms scale */
	case 6: d = (200 + vr_u8(&V)) * MS; break;
	case 7: d = ((uint64_t)INT32_MAX - 1 + j) * MS; break;		/* 2^31-1 ms +-1 */
	case 8: d = ((uint64_t)UINT32_MAX - 1 + j) * MS; break;		/* 2^32 ms +-1 */
	case 9: d = (1ULL << 63) - 1 + j; break;
	case 10: d = UINT64_MAX - j; break;
	case 11: d = 5000000000ULL * MS; break;				/* 5e9 ms */
	default: d = (1 + vr_u8(&V) % 8) * MS; break;
	}
	int p = vr_u8(&V) % 3, id = (int)T.size();
	if (d / MS > (uint64_t)INT32_MAX) { VCLASS(R, K_31); nontriv = true; }
	if (d / MS > (uint64_t)UINT32_MAX) VCLASS(R, K_32);
	if (cls == 9) VCLASS(R, K_63);
	if (cls == 10) VCLASS(R, K_64);
	TOKS.push_back(id);
	qb_loop_timer_handle h = 0;
	uint64_t before = vclock_mono();
	int rc = qb_loop_timer_add(L, (enum qb_loop_priority)p, d, &TOKS.back(), timer_cb, &h);
	uint64_t after = vclock_mono();
	VLOG(R, "      add timer %d prio %d duration %llu ns at +%llu -> %d\n", id, p, (unsigned long long)d, (unsigned long long)(before - 1000000000ULL), rc);
	mtimer m{ h, p, rc == 0 ? 0 : 2, before, d, 0, false, d > LONG_NS };
	/* the clock may tick between our reading and the library's: the expiry lies in [before+d, after+d]; judge "early" against the earlier one */
	if (before + d < before) { m.sat = true; m.due = UINT64_MAX; } else m.due = before + d;
	(void)after;
	T.push_back(m);
	if (rc != 0) VFAIL(R, "timer-add", "qb_loop_timer_add(duration %llu) returned %d", (unsigned long long)d, rc);
	if (pending_count() > 6) VCLASS(R, K_MANY);
}

static void do_actions(int n)
{
	for (int a = 0; a < n && !R->fail && !stop_called; a++) {
		if (budget_left <= 0 || winding_down) return;
		budget_left--;
		unsigned k = vr_u8(&V) % 16, arg = vr_u8(&V);
		vop(R, k, arg, 0);
		if (k <= 6) { if (pending_count() < 30) add_timer(); }
		else if (k <= 9 && !T.empty()) {	/* delete */
			int id = arg % T.size();
			if (heap_profile && pending_count() > 0) { int k2 = arg % pending_count(); for (size_t i = 0; i < T.size(); i++) if (T[i].st == 0 && T[i].h && k2-- == 0) { id = (int)i; break; } }
			mtimer &m = T[id];
			if (!m.h) continue;
			uint64_t head; earliest_due(&head);
			bool nonhead = m.st == 0 && pending_count() >= 3 && m.due != head;
			int rc = qb_loop_timer_del(L, m.h);
			VLOG(R, "      del timer %d (%s) -> %d\n", id, m.st == 0 ? "pending" : m.st == 1 ? "fired" : "deleted", rc);
			if (m.st == 0) {
				if (rc != 0) { VFAIL(R, "timer-del-refused", "delete of pending timer %d returned %d", id, rc); return; }
				m.st = 2;
				if (in_cb) VCLASS(R, K_DELCB);
				if (nonhead) { VCLASS(R, K_NONHEAD); nontriv = true; }
			} else if (rc == 0) { VFAIL(R, "stale-handle-accepted", "delete with a stale timer handle returned 0"); return; }
		}
		else if (k <= 12 && !T.empty()) {	/* queries */
			int id = arg % T.size(); mtimer &m = T[id];
			if (!m.h) continue;
			uint64_t now = vclock_mono();
			uint64_t rem = qb_loop_timer_expire_time_remaining(L, m.h);
			int run = qb_loop_timer_is_running(L, m.h);
			VLOG(R, "      query timer %d (%s): remaining %llu running %d\n", id, m.st == 0 ? "pending" : m.st == 1 ? "fired" : "deleted", (unsigned long long)rem, run);
			if (m.st == 0 && m.due > now + 2 * tick_ns + 1) {
				VCLASS(R, K_QPEND);
				if (!run) { VFAIL(R, "is-running-false", "timer %d is pending (expires in %llu ns) but is_running says 0", id, (unsigned long long)(m.due - now)); return; }
				if (!m.sat && (rem == 0 || rem > m.due - now + 1 || rem + 3 * tick_ns + 2 < m.due - now)) { VFAIL(R, "time-remaining", "timer %d expires in %llu ns but expire_time_remaining says %llu", id, (unsigned long long)(m.due - now), (unsigned long long)rem); return; }
				if (m.sat && rem == 0) { VFAIL(R, "time-remaining", "timer %d (expiry beyond the clock range) is pending but expire_time_remaining says 0", id); return; }
			} else if (m.st != 0) {
				VCLASS(R, K_QFIRED);
				if (run || rem) { VFAIL(R, "query-stale", "timer %d is %s but is_running=%d remaining=%llu", id, m.st == 1 ? "fired" : "deleted", run, (unsigned long long)rem); return; }
			}
		}
		else if (k == 15) {			/* a one-shot descriptor: ready at once, its callback unregisters it (poll_del from inside its own dispatch, or a negative return) */
			fdsrc *f = new fdsrc();
			if (pipe(f->p) != 0) { delete f; continue; }
			if (write(f->p[1], "x", 1) != 1) {}
			f->how = arg % 3;
			if (qb_loop_poll_add(L, (enum qb_loop_priority)((arg >> 2) % 3), f->p[0], POLLIN, f, fd_cb) != 0) { close(f->p[0]); close(f->p[1]); delete f; continue; }
			jobs_waiting++;
			VCLASS(R, K_FD);
			VLOG(R, "      add one-shot descriptor (prio %u, leaves by %s)\n", (arg >> 2) % 3, f->how == 2 ? "negative return" : "qb_loop_poll_del in its callback");
		}
		else if (k <= 14) {			/* a job: triggers the 50 ms throttle when nothing else is due */
			static int jt;
			if (qb_loop_job_add(L, (enum qb_loop_priority)(arg % 3), &jt, job_cb) == 0) { jobs_waiting++; jobs_queued_this_iter = true; }
			VLOG(R, "      add job\n");
		}
	}
}

extern "C" void verif_init(void) {}

extern "C" int verif_case(const uint8_t *data, size_t size, struct verif_report *r)
{
	vr_init(&V, data, size);
	R = r; T.clear(); TOKS.clear();
	iterations = stop_called = jobs_waiting = 0; winding_down = nontriv = jobs_queued_this_iter = false;
	have_last[0] = have_last[1] = have_last[2] = false;
	budget_left = 10 + vr_u8(&V) % 100;
	verif_random_reset(vr_u8(&V));
	tick_ns = (uint64_t[]){ 0, 0, 1000, 100000 }[vr_u8(&V) % 4];
	early_wake = vr_bool(&V);
	heap_profile = vr_u8(&V) % 3 == 0;
	if (heap_profile) VCLASS(r, K_HEAP);
	if (tick_ns) VCLASS(r, K_TICK);
	vclock_enable(1); vclock_set_mono(1000000000ULL); vclock_set_real(1700000000ULL * 1000000000ULL); vclock_set_tick(tick_ns);
	vepoll_enable(1, hook);
	L = qb_loop_create();
	if (!L) { r->inconclusive = 1; return 0; }
	VLOG(r, "clock tick %llu ns, early wake-ups %d, budget %d\n", (unsigned long long)tick_ns, early_wake, budget_left);
	if (heap_profile) {
		/* a burst of adds, then deletes among the pending ones, then a few more adds: every shape of the timer heap, and deletes at every position of it */
		int n = 6 + vr_u8(&V) % 19, m = 1 + vr_u8(&V) % 6, more = vr_u8(&V) % 4;
		VLOG(r, "burst: %d adds, %d deletes of pending timers, %d more adds\n", n, m, more);
		for (int i = 0; i < n && !r->fail; i++) add_timer();
		for (int i = 0; i < m && !r->fail && pending_count() > 0; i++) {
			int k2 = vr_u8(&V) % pending_count(), id = -1;
			for (size_t j = 0; j < T.size(); j++) if (T[j].st == 0 && T[j].h && k2-- == 0) { id = (int)j; break; }
			if (id < 0) break;
			uint64_t head; earliest_due(&head);
			if (pending_count() >= 3 && T[id].due != head) { VCLASS(r, K_NONHEAD); nontriv = true; }
			int rc = qb_loop_timer_del(L, T[id].h);
			VLOG(r, "      del timer %d (pending) -> %d\n", id, rc);
			if (rc != 0) { VFAIL(r, "timer-del-refused", "delete of pending timer %d returned %d", id, rc); break; }
			T[id].st = 2;
			vop(r, 99, id, 0);
		}
		for (int i = 0; i < more && !r->fail; i++) add_timer();
	}
	do_actions(2 + vr_u8(&V) % 8);
	for (int round = 0; round < 1000 && !r->fail; round++) {
		if (round == 999) { budget_left = 0; winding_down = true; }
		jobs_queued_this_iter = jobs_waiting > 0;
		qb_loop_run(L);
		if (stop_called == 3) {
			stop_called = 0;
			if (vr_eof(&V)) budget_left = 0;
			if (budget_left <= 0) { winding_down = true; if (!short_pending() && jobs_waiting <= 0) break; continue; }
			VLOG(r, "operations from outside the loop at +%llu\n", (unsigned long long)(vclock_mono() - 1000000000ULL));
			/* let some time pass, too: far-away timers stay far away */
			vclock_advance((uint64_t)(vr_u8(&V) % 50) * 1000000ULL);
			do_actions(1 + vr_u8(&V) % 4);
			continue;
		}
		break;
	}
	if (!r->fail) for (auto &t : T) if (t.st == 0 && !t.longt) { VFAIL(r, "never-dispatched", "a timer due at %llu was never dispatched (now %llu)", (unsigned long long)t.due, (unsigned long long)vclock_mono()); break; }
	r->nontrivial = nontriv;
	if (!r->fail) qb_loop_destroy(L);
	return 0;
}
