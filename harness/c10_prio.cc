/*
 * C10 - weak priorities: no level is starved, higher levels get at least as many turns.
 *
 * Workload = any mix of self-re-adding jobs, always-readable descriptors and zero-delay re-arming
 * timers over the three priorities, with sources joining and leaving during the run (decided by the
 * case inside the callbacks).  Virtual time; one epoll_wait = one loop iteration.
 * Oracle over the trace (level, iteration): every level that has an active source throughout a window
 * of three iterations dispatches at least once in it; whenever a lower level dispatches in an iteration,
 * every higher level with an active source dispatches in that iteration, too.
 */
#include <deque>
#include <vector>
#include <string>
#include <climits>
extern "C" {
#include "os_base.h"
#include <qb/qbloop.h>
#include "verif.h"
#include "vclock.h"
#include "vepoll.h"
void verif_random_reset(uint32_t);
}

const char *verif_property = "C10";
const char *verif_class_names[] = { "all_levels_busy_9_iterations", "higher_level_saturated", "jobs", "descriptors", "timers", "source_joined_midrun", "source_left_midrun",
	"nine_or_more_on_one_level", "job_only_level", "descriptor_moved_and_removed", "descriptor_moved_and_kept", NULL };
enum { K_BUSY9, K_SAT, K_JOBS, K_FDS, K_TIMERS, K_JOIN, K_LEAVE, K_NINE, K_JOBONLY, K_MODDEL, K_MODKEEP };
const char *verif_rule =
	"case = initial sources (self-re-adding jobs, always-readable pipes, zero-delay re-arming timers; 0..10 per priority) plus join/leave decisions taken inside callbacks, 30-300 loop iterations; "
	"non-trivial = all three levels continuously busy for >= 9 iterations with a higher level saturated (>= 5 sources); distinct = hash of decoded workload";
int verif_fork_per_case = 1;
int verif_case_timeout_ms = 20000;
int verif_hang_is_violation = 1;
size_t verif_max_size = 200;
size_t verif_min_size = 10;

enum { S_JOB, S_FD, S_TIMER };
struct source { int kind, prio; bool active; int rfd, wfd; int armed_iter; /* iteration in which it was (re)armed */ int left_iter; int joined_iter; int id;
	int last_seen, max_gap, gap_at; bool moved_pending; int move_idx; };
static std::vector<std::pair<int, int>> MOVES;	/* iterations around a priority move of a descriptor: the level-by-level analysis skips them (the entry may still be served from its old level's queue) */
static std::deque<source> SRC;
static qb_loop_t *L;
static struct verif_report *R;
static struct vr V;
static int iterations, max_iter, churn_budget;
static std::vector<std::vector<int>> DISP;	/* DISP[level] = iterations in which the level dispatched (with repeats) */

static void arm(source &s);
static int32_t fd_cb(int32_t fd, int32_t revents, void *data);
static void add_source(int kind, int prio);

/* every source is continuously ready: how long did this one wait since it was last served? */
static void seen(source &s)
{
	int gap = iterations - s.last_seen;
	if (gap > s.max_gap) { s.max_gap = gap; s.gap_at = iterations; }
	s.last_seen = iterations;
}

static void maybe_churn(source &self)
{
	if (churn_budget <= 0) return;
	unsigned k = vr_u8(&V);
	if (k % 16 == 0) { churn_budget--; add_source(vr_u8(&V) % 3, vr_u8(&V) % 3); VCLASS(R, K_JOIN); }
	else if (k % 16 == 1) { churn_budget--; self.active = false; self.left_iter = iterations; VCLASS(R, K_LEAVE); VLOG(R, " [it %d] source %d (level %d) leaves\n", iterations, self.id, self.prio); }
	else if (k % 16 == 2) {
		/* another descriptor source is moved to a different priority and removed right away (it may be queued for dispatch at this moment) */
		for (auto &o : SRC) if (&o != &self && o.kind == S_FD && o.active) {
			int np = (o.prio + 1 + (int)(vr_u8(&V) % 2)) % 3;
			churn_budget--;
			if (qb_loop_poll_mod(L, (enum qb_loop_priority)np, o.rfd, POLLIN, &o, fd_cb) != 0) { VFAIL(R, "poll-mod", "qb_loop_poll_mod of a registered descriptor failed"); return; }
			if (qb_loop_poll_del(L, o.rfd) != 0) { VFAIL(R, "poll-del", "qb_loop_poll_del of a registered descriptor failed"); return; }
			o.active = false; o.left_iter = iterations; VCLASS(R, K_LEAVE); VCLASS(R, K_MODDEL);
			VLOG(R, " [it %d] source %d (level %d) is moved to level %d and removed\n", iterations, o.id, o.prio, np);
			break;
		}
	}
	else if (k % 16 == 3) {
		/* another descriptor source is moved to a different priority and stays (it may be queued for dispatch at this moment): it must go on being served */
		for (auto &o : SRC) if (&o != &self && o.kind == S_FD && o.active) {
			int np = (o.prio + 1 + (int)(vr_u8(&V) % 2)) % 3;
			churn_budget--;
			seen(o);
			SRC.push_back(o);	/* for the level analysis a move is a leave plus a join */
			source &n = SRC.back();
			n.prio = np; n.joined_iter = iterations; n.id = (int)SRC.size() - 1; n.last_seen = iterations; n.max_gap = 0; n.moved_pending = true; n.move_idx = (int)MOVES.size();
			MOVES.push_back(std::make_pair(iterations - 2, INT_MAX));
			o.active = false; o.left_iter = iterations; o.rfd = o.wfd = -1;
			if (qb_loop_poll_mod(L, (enum qb_loop_priority)np, n.rfd, POLLIN, &n, fd_cb) != 0) { VFAIL(R, "poll-mod", "qb_loop_poll_mod of a registered descriptor failed"); return; }
			VCLASS(R, K_MODKEEP);
			VLOG(R, " [it %d] source %d (descriptor, level %d) is moved to level %d and is source %d from now on\n", iterations, o.id, o.prio, np, n.id);
			break;
		}
	}
}

static void job_cb(void *data)
{
	source &s = *(source *)data;
	DISP[s.prio].push_back(iterations); seen(s);
	maybe_churn(s);
	if (s.active) arm(s);
}
static void timer_cb(void *data)
{
	source &s = *(source *)data;
	DISP[s.prio].push_back(iterations); seen(s);
	maybe_churn(s);
	if (s.active) arm(s);
}
static int32_t fd_cb(int32_t fd, int32_t revents, void *data)
{
	(void)fd; (void)revents;
	source &s = *(source *)data;
	seen(s);
	if (s.moved_pending) { s.moved_pending = false; MOVES[s.move_idx].second = iterations + 3; }	/* possibly served from the queue of the level it came from */
	else DISP[s.prio].push_back(iterations);
	maybe_churn(s);
	if (!s.active) { qb_loop_poll_del(L, s.rfd); return 0; }
	s.armed_iter = iterations;
	return 0;	/* the pipe stays readable */
}

static void arm(source &s)
{
	s.armed_iter = iterations;
	if (s.kind == S_JOB) { if (qb_loop_job_add(L, (enum qb_loop_priority)s.prio, &s, job_cb) != 0) VFAIL(R, "job-add", "qb_loop_job_add failed"); }
	else if (s.kind == S_TIMER) { qb_loop_timer_handle h; if (qb_loop_timer_add(L, (enum qb_loop_priority)s.prio, 0, &s, timer_cb, &h) != 0) VFAIL(R, "timer-add", "qb_loop_timer_add failed"); }
}

static void add_source(int kind, int prio)
{
	/* one epoll_wait harvests at most 12 events: with more descriptors ready than that, which of them get queued in an iteration is the kernel's choice, not the loop's */
	if (kind == S_FD) { int nfd = 0; for (auto &o : SRC) if (o.kind == S_FD && o.active) nfd++; if (nfd >= 11) kind = S_TIMER; }
	SRC.push_back(source{ kind, prio, true, -1, -1, iterations, -1, iterations, (int)SRC.size(), iterations, 0, 0, false, -1 });
	source &s = SRC.back();
	if (kind == S_FD) {
		int pfd[2]; if (pipe(pfd)) { s.active = false; return; }
		s.rfd = pfd[0]; s.wfd = pfd[1];
		if (write(s.wfd, "x", 1) != 1) {}
		if (qb_loop_poll_add(L, (enum qb_loop_priority)prio, s.rfd, POLLIN, &s, fd_cb) != 0) { VFAIL(R, "poll-add", "qb_loop_poll_add failed"); return; }
		VCLASS(R, K_FDS);
	} else { arm(s); VCLASS(R, kind == S_JOB ? K_JOBS : K_TIMERS); }
	VLOG(R, " [it %d] source %d joins: %s at level %d\n", iterations, s.id, kind == S_JOB ? "self-re-adding job" : kind == S_FD ? "always-readable descriptor" : "zero-delay timer", prio);
}

static void hook(int n_ready, int timeout_ms)
{
	(void)n_ready; (void)timeout_ms;
	iterations++;
	if (iterations >= max_iter) { qb_loop_stop(L); return; }
	vclock_advance(20000 + (timeout_ms > 0 ? (uint64_t)timeout_ms * 1000000ULL : 0));
}

extern "C" void verif_init(void) {}

extern "C" int verif_case(const uint8_t *data, size_t size, struct verif_report *r)
{
	vr_init(&V, data, size);
	R = r; SRC.clear(); MOVES.clear(); DISP.assign(3, std::vector<int>());
	iterations = 0; max_iter = 30 + vr_u16(&V) % 271; churn_budget = vr_u8(&V) % 12;
	verif_random_reset(vr_u8(&V));
	vclock_enable(1); vclock_set_mono(1000000000ULL); vclock_set_real(1700000000ULL * 1000000000ULL);
	vclock_set_tick(1000);	/* every clock read moves time on: a timer re-armed with duration 0 has expired by the next look at the timer list */
	vepoll_enable(1, hook);
	L = qb_loop_create();
	if (!L) { r->inconclusive = 1; return 0; }
	int per_level[3];
	for (int p = 2; p >= 0; p--) {
		unsigned sel = vr_u8(&V);
		per_level[p] = (sel & 3) == 0 ? 0 : (sel & 3) == 1 ? 1 + (sel >> 2) % 3 : (sel & 3) == 2 ? 4 + (sel >> 2) % 3 : 7 + (sel >> 2) % 4;
		unsigned kinds = vr_u8(&V);	/* which kinds appear on this level */
		for (int i = 0; i < per_level[p]; i++) {
			int kind = (kinds & 3) == 3 ? (int)(vr_u8(&V) % 3) : (int)(kinds & 3) % 3;
			add_source(kind, p);
		}
		if (per_level[p] >= 9) VCLASS(r, K_NINE);
		vop(r, p, per_level[p], kinds);
	}
	vop(r, max_iter, churn_budget, 0);
	VLOG(r, "workload: HIGH %d, MED %d, LOW %d sources; %d iterations, %d join/leave decisions\n", per_level[2], per_level[1], per_level[0], max_iter, churn_budget);
	qb_loop_run(L);
	VLOG(r, "run ended after %d iterations; dispatches HIGH %zu MED %zu LOW %zu\n", iterations, DISP[2].size(), DISP[1].size(), DISP[0].size());

	/* ---- analysis: per level, per iteration: is there a source that is active over the whole stretch [from, to]? */
	auto active_over = [&](int level, int from, int to) {
		for (auto &s : SRC) if (s.prio == level && s.joined_iter < from && (s.left_iter < 0 || s.left_iter > to)) return true;
		return false;
	};
	std::vector<std::vector<char>> did(3, std::vector<char>(iterations + 2, 0));
	for (int p = 0; p < 3; p++) for (int it : DISP[p]) if (it <= iterations) did[p][it] = 1;
	bool job_only[3] = { true, true, true };
	for (auto &s : SRC) if (s.kind != S_JOB) job_only[s.prio] = false;
	int busy_run = 0, best_busy = 0; bool saturated = false;
	for (int p = 0; p < 3; p++) { int n = 0; for (auto &s : SRC) if (s.prio == p && s.joined_iter == 0) n++; if (p > 0 && n >= 5) saturated = true; if (n && job_only[p]) VCLASS(r, K_JOBONLY); }
	/* a source needs one iteration to get queued after joining/re-arming; skip the first two and the last iteration */
	auto near_move = [&](int i) { for (auto &m : MOVES) if (i + 2 >= m.first && i <= m.second) return true; return false; };
	for (int i = 3; i + 2 < iterations && !r->fail; i++) {
		bool all = true;
		if (near_move(i)) { busy_run = 0; continue; }
		for (int p = 0; p < 3; p++) {
			if (!active_over(p, i - 1, i + 2)) { all = false; continue; }
			if (!did[p][i] && !did[p][i + 1] && !did[p][i + 2]) {
				VFAIL(r, "level-starved", "level %s has had a continuously ready source since before iteration %d but dispatched nothing in iterations %d..%d", p == 2 ? "HIGH" : p == 1 ? "MED" : "LOW", i - 1, i, i + 2);
				break;
			}
		}
		busy_run = all ? busy_run + 1 : 0; if (busy_run > best_busy) best_busy = busy_run;
		/* nested service: a lower level dispatching implies every busy higher level dispatched in the same iteration */
		for (int q = 0; q < 2 && !r->fail; q++) if (did[q][i]) for (int p = q + 1; p < 3; p++)
			if (active_over(p, i - 2, i) && !did[p][i]) {
				VFAIL(r, "lower-level-preferred", "iteration %d dispatched at level %s but not at level %s, which has had a ready source since before iteration %d", i, q == 0 ? "LOW" : "MED", p == 2 ? "HIGH" : "MED", i - 2);
				break;
			}
	}
	/* ---- per source: every source is ready all the time it is active; a level serves its queue in FIFO order, 4 items per turn, and gets a turn at least every third iteration */
	if (!r->fail) {
		int ever[3] = { 0, 0, 0 };
		for (auto &s : SRC) ever[s.prio]++;
		for (auto &s : SRC) {
			if (s.active) { int gap = iterations - s.last_seen; if (gap > s.max_gap) { s.max_gap = gap; s.gap_at = iterations; } }
			int bound = 3 * ever[s.prio] + 6;
			if (s.max_gap > bound) {
				VFAIL(r, "source-starved", "source %d (%s, level %s) was ready all the time but was not served for %d iterations (up to iteration %d); its level has had %d source(s) in all, so %d iterations is the longest a FIFO queue served 4 at a time every third iteration can take",
				      s.id, s.kind == S_JOB ? "job" : s.kind == S_FD ? "descriptor" : "timer", s.prio == 2 ? "HIGH" : s.prio == 1 ? "MED" : "LOW", s.max_gap, s.gap_at, ever[s.prio], bound);
				break;
			}
		}
	}
	if (best_busy >= 9) VCLASS(r, K_BUSY9);
	if (saturated) VCLASS(r, K_SAT);
	r->nontrivial = best_busy >= 9 && saturated;
	return 0;
}
