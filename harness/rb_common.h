/* helpers shared by the ring buffer harnesses (C01, C07, C11) */
#ifndef RB_COMMON_H
#define RB_COMMON_H
#include <stdint.h>
#include <stdlib.h>
#include <string.h>
#include <dirent.h>
#include <errno.h>
#include <unistd.h>
#include "verif.h"

#define RB_OVERHEAD 16	/* per chunk, as stated in the properties */

enum { PAY_KEYED, PAY_MARKER, PAY_FAKEHDR, PAY_ZERO, PAY_KINDS };

static inline void rb_fill_payload(uint8_t *dst, size_t len, uint32_t seq, int kind, uint32_t salt)
{
	static const uint32_t markers[3] = { 0xA1A1A1A1u, 0xD0D0D0D0u, 0xA110CED0u };
	size_t i;
	switch (kind) {
	default:
	case PAY_KEYED:
		for (i = 0; i < len; i++)
			dst[i] = (uint8_t)(vmix(seq * 2654435761u + salt, i) >> 24);
		break;
	case PAY_MARKER:
		for (i = 0; i < len; i++) {
			uint32_t w = markers[(salt + i / 4) % (salt % 2 ? 1 : 3)];
			dst[i] = (uint8_t)(w >> (8 * (i % 4)));
		}
		break;
	case PAY_FAKEHDR:	/* looks like a run of published chunk headers */
		for (i = 0; i < len; i++) {
			uint32_t w = ((i / 4) % 2 == (salt & 1)) ? 0xA1A1A1A1u : (uint32_t)((salt >> 1) % 9) * 4;
			dst[i] = (uint8_t)(w >> (8 * (i % 4)));
		}
		break;
	case PAY_ZERO:
		memset(dst, 0, len);
		break;
	}
	/* stamp the sequence number where there is room, so order errors are visible */
	if (kind == PAY_KEYED && len >= 4) memcpy(dst, &seq, 4);
}

/* number of entries in /dev/shm (private tmpfs per worker), -1 if unreadable */
static inline int shm_entries(char *first, size_t n)
{
	DIR *d = opendir("/dev/shm");
	struct dirent *e; int c = 0;
	if (!d) return -1;
	while ((e = readdir(d))) {
		if (!strcmp(e->d_name, ".") || !strcmp(e->d_name, "..")) continue;
		if (c == 0 && first) snprintf(first, n, "%s", e->d_name);
		c++;
	}
	closedir(d);
	return c;
}

static inline int open_fd_count(void)
{
	DIR *d = opendir("/proc/self/fd");
	struct dirent *e; int c = 0;
	if (!d) return -1;
	while ((e = readdir(d))) c++;
	closedir(d);
	return c - 3;	/* ., .., the dirfd itself */
}
#endif
