/* C18 - map iterators stay valid while entries are removed or added under them */
#define WITH_ITERS 1
#include "map_harness.inc"
const char *verif_property = "C18";
const char *verif_class_names[] = { "hashtable", "skiplist", "trie", "rm_absent_prefix_related", "abandoned_iterator", "prefix_iteration",
	"notifier_registered", "iters_freed_compare", "parked_removed", "aimed_rm", "map_emptied", NULL };
const char *verif_rule =
	"case = implementation x op list as C17 plus up to 4 simultaneously open iterators (create / prefix create / next / free part-way) and removals aimed at "
	"the entry an iterator is positioned on, its predecessor, its successor, the first entry; "
	"non-trivial = the entry an open iterator is positioned on was removed and another mutation followed before that iterator advanced; distinct = hash of decoded op list";
int verif_fork_per_case = 0;
int verif_case_timeout_ms = 20000;
int verif_hang_is_violation = 0;
size_t verif_max_size = 300;
size_t verif_min_size = 8;
