/*
 * C19 (concurrent part) - 2..3 threads index/grow one array under the schedule engine.
 * Yield points: every instrumented load/store in array.c and the (wrapped) grow lock.
 * Oracle: the sequential guarantees, with the size known only as an interval while grows are in flight. ASan for stale tables.
 */
#include <map>
#include <vector>
extern "C" {
#include "os_base.h"
#include <qb/qbarray.h>
#include "verif.h"
#include "vsched.h"
}

const char *verif_property = "C19";
const char *verif_class_names[] = { "switch_inside_index", "switch_inside_grow", "table_realloc", "three_threads", "autogrow", "shared_index", "lock_contended", NULL };
enum { K_SWIDX, K_SWGROW, K_REALLOC, K_THREE, K_AUTOGROW, K_SHARED, K_CONT };
const char *verif_rule =
	"case = array parameters, 2-3 thread scripts of index/grow ops, and a schedule (one choice per instrumented access to the array object / bin table and per lock operation); "
	"non-trivial = at least one context switch strictly inside a qb_array_index or qb_array_grow call while another thread's call reallocated the bin table; "
	"distinct = hash of scripts and effective schedule";
int verif_fork_per_case = 1;
int verif_case_timeout_ms = 20000;
int verif_hang_is_violation = 0;
size_t verif_max_size = 700;
size_t verif_min_size = 16;

struct op { uint8_t kind; int32_t arg; uint8_t write; };
struct party { std::vector<op> ops; int id; };
static qb_array_t *A;
static size_t ESZ, AUTOGROW;
static int64_t cur_min, cur_max;	/* size confirmed / size possibly reached */
static struct verif_report *R;
static std::map<int32_t, char *> addr_of;
static std::map<uintptr_t, int32_t> by_addr;
static std::map<int32_t, uint32_t> pat_of;
static int NP, realloc_seen, sw_idx, sw_grow;

static void party_fn(void *a)
{
	party *p = (party *)a;
	for (auto &o : p->ops) {
		if (R->fail) return;
		if (o.kind == 0) {
			int32_t i = o.arg; void *ptr = NULL;
			int64_t lo = cur_min, hi;
			size_t bins0 = 0; (void)bins0;
			unsigned s0 = sched_switches_in_call(p->id);
			if (AUTOGROW && i >= 0 && i < 65536 && i + 1 > cur_max) cur_max = (int64_t)i + 1;
			sched_enter_call();
			int rc = qb_array_index(A, i, &ptr);
			sched_leave_call();
			hi = cur_max;
			if (sched_switches_in_call(p->id) != s0) sw_idx++;
			bool must_ok = (i >= 0 && i < lo) || (AUTOGROW && i >= 0 && i < 65536);
			bool must_fail = i < 0 || i >= 65536 || (!AUTOGROW && i >= hi);
			if (must_ok && rc != 0) { VFAIL(R, "index-refused", "thread %d: index %d returned %d (size at least %lld, autogrow %zu)", p->id, i, rc, (long long)lo, AUTOGROW); return; }
			if (must_fail && rc == 0) { VFAIL(R, "index-out-of-range-accepted", "thread %d: index %d accepted (size at most %lld)", p->id, i, (long long)hi); return; }
			if (rc != 0) continue;
			if (AUTOGROW && (int64_t)i + 1 > cur_min) cur_min = (int64_t)i + 1;
			char *addr = (char *)ptr;
			auto e = addr_of.find(i);
			if (e != addr_of.end()) {
				if (e->second != addr) { VFAIL(R, "address-moved", "thread %d: index %d now at %p, was at %p", p->id, i, (void *)addr, (void *)e->second); return; }
			} else {
				auto nx = by_addr.lower_bound((uintptr_t)addr);
				if (nx != by_addr.end() && nx->first < (uintptr_t)addr + ESZ) { VFAIL(R, "overlap", "index %d overlaps index %d", i, nx->second); return; }
				if (nx != by_addr.begin()) { auto pv = std::prev(nx); if (pv->first + ESZ > (uintptr_t)addr) { VFAIL(R, "overlap", "index %d overlaps index %d", i, pv->second); return; } }
				addr_of[i] = addr; by_addr[(uintptr_t)addr] = i;
			}
			auto pt = pat_of.find(i);
			for (size_t k = 0; k < ESZ; k++) {
				uint8_t want = pt != pat_of.end() ? (uint8_t)(vmix(pt->second, k) >> 16) : 0;
				if ((uint8_t)addr[k] != want) { VFAIL(R, pt != pat_of.end() ? "content-lost" : "not-zero", "thread %d: index %d byte %zu is %02x expected %02x", p->id, i, k, (uint8_t)addr[k], want); return; }
			}
			if (o.write && (i % NP) == p->id) {
				uint32_t pat = o.write * 2654435761u + (uint32_t)i;
				pat_of[i] = pat;
				for (size_t k = 0; k < ESZ; k++) addr[k] = (char)(vmix(pat, k) >> 16);
			}
		} else {
			int64_t n = o.arg;
			size_t b0 = qb_array_num_bins_get(A);
			unsigned s0 = sched_switches_in_call(p->id);
			if (n <= 65536 && n > cur_max) cur_max = n;
			sched_enter_call();
			int rc = qb_array_grow(A, (size_t)n);
			sched_leave_call();
			if (sched_switches_in_call(p->id) != s0) sw_grow++;
			if (n <= 65536) { if (rc != 0) { VFAIL(R, "grow-refused", "grow(%lld) returned %d", (long long)n, rc); return; } if (n > cur_min) cur_min = n; }
			else if (rc == 0) { VFAIL(R, "grow-beyond-max-accepted", "grow(%lld) accepted", (long long)n); return; }
			if (qb_array_num_bins_get(A) != b0) realloc_seen++;
		}
	}
}

extern "C" void verif_init(void) {}

extern "C" int verif_case(const uint8_t *data, size_t size, struct verif_report *r)
{
	struct vr v; vr_init(&v, data, size);
	R = r;
	ESZ = 1 + vr_u8(&v) % 64;
	int64_t cur = (int64_t[]){ 0, 1, 15, 16, 17, 40 }[vr_u8(&v) % 6];
	AUTOGROW = (vr_u8(&v) % 3 == 0) ? 0 : 1 + vr_u8(&v) % 16;
	NP = 2 + (vr_u8(&v) % 4 == 0);
	addr_of.clear(); by_addr.clear(); pat_of.clear(); realloc_seen = sw_idx = sw_grow = 0;
	cur_min = cur_max = cur;
	A = qb_array_create_2(cur, ESZ, AUTOGROW);
	if (!A) { r->inconclusive = 1; return 0; }
	party P[3];
	unsigned nops = 2 + vr_u8(&v) % 7;
	VLOG(r, "create size=%lld element=%zu autogrow=%zu threads=%d\n", (long long)cur, ESZ, AUTOGROW, NP);
	vop(r, 0xC19C, cur, ESZ * 32 + AUTOGROW);
	for (int t = 0; t < NP; t++) {
		P[t].id = t;
		for (unsigned k = 0; k < nops; k++) {
			op o; unsigned sel = vr_u8(&v);
			o.kind = (sel % 3 == 0);
			unsigned cls = vr_u8(&v) % 6;
			/* indexes concentrate on a few bins around the table growth points so threads meet */
			int32_t base = (int32_t[]){ 0, 16, 32, 48, 160, 640 }[cls];
			o.arg = base + (int32_t)(vr_u8(&v) % 20) - 2;
			if (o.kind && o.arg < 0) o.arg = 0;
			if (o.kind && vr_u8(&v) % 8 == 0) o.arg = 65537;
			o.write = vr_u8(&v);
			P[t].ops.push_back(o);
			vop(r, t * 4 + o.kind, (uint32_t)o.arg, o.write);
			VLOG(r, "  thread %d: %s %d%s\n", t, o.kind ? "grow" : "index", o.arg, (!o.kind && o.write) ? " (+write if owner)" : "");
		}
	}
	if (NP == 3) VCLASS(r, K_THREE);
	if (AUTOGROW) VCLASS(r, K_AUTOGROW);
	sched_region_clear();
	sched_set_threshold((unsigned[]){ 250, 240, 224, 192 }[vr_u8(&v) % 4]);	/* few preemptions (long uninterrupted runs) .. many */
	sched_region_add((void *)0, (size_t)-1);	/* every instrumented access in array.c is a yield point */
	void (*fn[3])(void *) = { party_fn, party_fn, party_fn };
	void *arg[3] = { &P[0], &P[1], &P[2] };
	int rc = sched_run(NP, fn, arg, &v, NULL, 0, 20000);
	VLOG(r, "schedule: %lu yield points, %lu switches (%d inside index, %d inside grow), table reallocated %d times\n", sched_yields(), sched_switches(), sw_idx, sw_grow, realloc_seen);
	if (rc < 0 && !r->fail) { if (sched_deadlocked()) VFAIL(r, "deadlock", "threads deadlocked on the grow lock"); else r->inconclusive = 1; }
	r->ophash = vmix(r->ophash, sched_trace());
	if (sw_idx) VCLASS(r, K_SWIDX);
	if (sw_grow) VCLASS(r, K_SWGROW);
	if (realloc_seen) VCLASS(r, K_REALLOC);
	r->nontrivial = (sw_idx || sw_grow) && realloc_seen;
	if (!r->fail) qb_array_free(A);
	return 0;
}
