/*
 * C11 (ring level) - overwrite-mode ring keeps the newest chunks, intact.
 * Oracle: the sequence W of all chunks written; every chunk that comes out
 * (destructive read, peek+reclaim, or draining a file snapshot) must be W[i]
 * with c <= i <= max(c, n - J): c = first chunk not yet consumed, J = number
 * of newest chunks that fit the requested size S at 16 bytes overhead each.
 */
#include "os_base.h"
#include <qb/qbrb.h>
#include "ringbuffer_int.h"
#include "rb_common.h"

const char *verif_property = "C11";
const char *verif_class_names[] = { "wrapped", "wrapped_twice", "multi_reclaim", "snapshot", "snapshot_after_wrap", "semaphore",
	"near_capacity_chunk", "read_after_overwrite", "full_S_chunk", "peek", "long_run_of_tiny_chunks", NULL };
enum { K_WRAP, K_WRAP2, K_MULTI, K_SNAP, K_SNAPWRAP, K_SEM, K_NEAR, K_READOVER, K_FULL, K_PEEK, K_TINYRUN };
const char *verif_rule =
	"case = size S (pages +-20, tiny, arbitrary) x semaphore on/off x op list (write/alloc+commit of tiny..S bytes, destructive read, peek+reclaim, "
	"non-destructive snapshot through qb_rb_write_to_file + qb_rb_create_from_file drained completely) from seeded random bytes; "
	"non-trivial = some write reclaimed >= 2 old chunks at once AND the ring wrapped >= 2 times; distinct = hash of decoded op list";
int verif_fork_per_case = 0;
int verif_case_timeout_ms = 20000;
int verif_hang_is_violation = 0;
size_t verif_max_size = 500;
size_t verif_min_size = 8;

#define MAXW 2048
struct wchunk { uint32_t len, salt; uint8_t kind; };
static struct wchunk W[MAXW];
static unsigned nW;		/* chunks written so far */
/* The consumed boundary c (first chunk not yet handed out or dropped) is tracked as a small set of
 * possible values: chunks with identical bytes (all zero-length chunks, for instance) make it
 * ambiguous which one a read returned, and guessing would raise false alarms later. */
#define MAXWORLDS 256
static int worlds_overflow;	/* too many byte-identical candidates to track: the case is given up as inconclusive rather than judged on a guess */
static unsigned worlds[MAXWORLDS]; static int nworlds;
static uint8_t *scratch, *expect;
static size_t scratch_cap;

void verif_init(void)
{
	scratch_cap = 5 * 4096 + 64;
	scratch = malloc(scratch_cap);
	expect = malloc(scratch_cap);
}

static int chunk_is(unsigned i, const void *got, size_t n)
{
	if (W[i].len != n) return 0;
	rb_fill_payload(expect, n, i, W[i].kind, W[i].salt);
	return !memcmp(expect, got, n);
}

/* oldest index the ring may legitimately have dropped down to, if c is the consumed boundary */
static unsigned hi_of(unsigned c, int64_t S)
{
	int64_t sum = 0; unsigned j = 0;
	while (j < nW - c) {
		sum += (int64_t)W[nW - 1 - j].len + RB_OVERHEAD;
		if (sum > S) break;
		j++;
	}
	return (nW - c > j) ? nW - j : c;
}

static void worlds_add(unsigned *set, int *n, unsigned v)
{
	for (int i = 0; i < *n; i++) if (set[i] == v) return;
	if (*n < MAXWORLDS) set[(*n)++] = v; else worlds_overflow = 1;
}
static int worlds_has(unsigned v) { for (int i = 0; i < nworlds; i++) if (worlds[i] == v) return 1; return 0; }
static int worlds_all(unsigned v) { for (int i = 0; i < nworlds; i++) if (worlds[i] != v) return 0; return 1; }

/* one chunk came out of the ring destructively */
static int judge_read(struct verif_report *r, int64_t S, const void *got, ssize_t n, const char *what, int *skipped)
{
	unsigned nw[MAXWORLDS]; int nn = 0, late = -1, any_unread = 0;
	*skipped = 0;
	for (int k = 0; k < nworlds; k++) {
		unsigned c = worlds[k];
		if (c >= nW) continue;
		any_unread = 1;
		unsigned hi = hi_of(c, S);
		for (unsigned i = c; i < nW; i++) {
			if (!chunk_is(i, got, n)) continue;
			if (i <= hi) { worlds_add(nw, &nn, i + 1); if (i > c) *skipped = 1; }
			else if (late < 0) late = (int)i;
		}
	}
	if (worlds_overflow) { r->inconclusive = 1; return -1; }
	if (nn == 0) {
		if (!any_unread) VFAIL(r, "phantom-chunk", "%s returned %zd bytes although every written chunk was already consumed", what, n);
		else if (late >= 0) VFAIL(r, "newest-dropped", "%s returned chunk #%d: older chunks were dropped although they are among the newest ones that fit in S=%lld with 16 bytes overhead each", what, late, (long long)S);
		else VFAIL(r, "foreign-chunk", "%s returned %zd bytes that match no chunk written and not yet consumed (torn, stale or invented)", what, n);
		return -1;
	}
	memcpy(worlds, nw, sizeof(unsigned) * nn); nworlds = nn;
	return 0;
}

/* the ring reported "nothing there" */
static int judge_empty(struct verif_report *r, ssize_t rc, const char *what)
{
	if (!worlds_has(nW)) {
		VFAIL(r, "nothing-retained", "%s returned %zd although at least one chunk was written since the last consumed one (k >= 1 required)", what, rc);
		return -1;
	}
	worlds[0] = nW; nworlds = 1;
	return 0;
}

int verif_case(const uint8_t *data, size_t size, struct verif_report *r)
{
	struct vr v; vr_init(&v, data, size);
	static unsigned counter;
	char name[64];
	qb_ringbuffer_t *rb;
	uint32_t flags = QB_RB_FLAG_CREATE | QB_RB_FLAG_OVERWRITE;
	int sem, wraps = 0, multi = 0, skipped;
	int64_t S;

	nW = 0; worlds[0] = 0; nworlds = 1; worlds_overflow = 0;
	switch (vr_range(&v, 0, 2)) {
	case 0: flags |= QB_RB_FLAG_SHARED_PROCESS | QB_RB_FLAG_NO_SEMAPHORE; sem = 0; break;
	case 1: sem = 1; break;		/* what the blackbox uses */
	default: flags |= QB_RB_FLAG_SHARED_THREAD | QB_RB_FLAG_NO_SEMAPHORE; sem = 0; break;
	}
	{
		int k = vr_range(&v, 0, 4), d = (int)vr_range(&v, 0, 40) - 20;
		if (k == 4) S = 1 + vr_range(&v, 0, 3 * 4096);
		else S = (int64_t)k * 4096 + d;
		if (S <= 0) S = 1 + (vr_u8(&v) % 64);
	}
	if (sem) VCLASS(r, K_SEM);
	snprintf(name, sizeof name, "vc11-%d-%u", (int)getpid(), counter++);
	rb = qb_rb_open(name, (size_t)S, flags, 0);
	if (!rb) { r->inconclusive = 1; return 0; }
	uint32_t words = rb->shared_hdr->word_size;
	VLOG(r, "open S=%lld flags=0x%x (%s) real_words=%u\n", (long long)S, flags, sem ? "semaphore" : "no-semaphore", words);
	vop(r, 0xC11, S, flags);

	while (!vr_eof(&v) && !r->fail && nW < MAXW) {
		unsigned op = vr_u8(&v) % 16;
		if (op <= 8) {		/* ---- write: every write of at most S bytes must succeed */
			int lk = vr_u8(&v) % 6, two_step = op >= 7;
			int64_t len;
			/* a long run of tiny chunks: the next big write has to push hundreds of them out at once */
			int burst = 0;
			if (lk == 5) { burst = 40 + 4 * (int)vr_u8(&v); lk = 0; VCLASS(r, K_TINYRUN); }
			int in_burst = 0;
		      again:
			if (in_burst) { len = (int64_t)((nW * 7 + 3) % 21); goto have_len; }	/* the chunks of a run are derived, not read from the case */
			switch (lk) {
			case 0: len = vr_u8(&v) % 33; break;
			case 1: len = S - (vr_u8(&v) % 21); break;
			case 2: len = vr_range(&v, 0, S); break;
			case 3: len = S / 2 + (int)(vr_u8(&v) % 41) - 20; break;
			default: len = vr_u8(&v) % 200; break;
			}
		      have_len:
			if (len < 0) len = 0;
			if (len > S) len = S;
			int kind = in_burst ? PAY_KEYED : (int)(vr_u8(&v) % PAY_KINDS); uint32_t salt = in_burst ? (nW & 0xff) : vr_u8(&v);	/* keyed: every chunk of a run is recognisable */
			uint32_t wp = rb->shared_hdr->write_pt, rp = rb->shared_hdr->read_pt;
			ssize_t rc;
			rb_fill_payload(scratch, len, nW, kind, salt);
			vop(r, two_step ? 2 : 1, len, kind | (salt << 8));
			if (!two_step) rc = qb_rb_chunk_write(rb, scratch, len);
			else {
				uint8_t *p = qb_rb_chunk_alloc(rb, len);
				if (!p) rc = -errno;
				else { memcpy(p, scratch, len); rc = qb_rb_chunk_commit(rb, len); if (rc == 0) rc = len; }
			}
			VLOG(r, "%s #%u len=%lld payload=%d/%u -> %zd\n", two_step ? "alloc+commit" : "write", nW, (long long)len, kind, salt, rc);
			if (rc != len) { VFAIL(r, "overwrite-write-refused", "write of %lld bytes (S=%lld) returned %zd in overwrite mode", (long long)len, (long long)S, rc); break; }
			W[nW].len = len; W[nW].kind = kind; W[nW].salt = salt; nW++;
			if (rb->shared_hdr->write_pt < wp) { wraps++; VCLASS(r, K_WRAP); if (wraps >= 2) VCLASS(r, K_WRAP2); }
			if (len >= S - 20) VCLASS(r, K_NEAR);
			if (len == S) VCLASS(r, K_FULL);
			/* a write that moved read_pt by more than the largest single older chunk reclaimed >= 2 of them */
			if (rb->shared_hdr->read_pt != rp && nW >= 3) {
				uint32_t moved = (rb->shared_hdr->read_pt + words - rp) % words, biggest = 0;
				for (unsigned i2 = (nW > 40 ? nW - 40 : 0); i2 + 1 < nW; i2++) { uint32_t cw = 2 + (W[i2].len + 3) / 4; if (cw > biggest) biggest = cw; }
				if (moved > biggest) { multi = 1; VCLASS(r, K_MULTI); }
			}
			if (burst > 0 && nW < MAXW - 8) { burst--; in_burst = 1; goto again; }
		} else if (op <= 11 || op == 13 || (op == 14 && sem)) {	/* ---- destructive read */
			ssize_t rc = qb_rb_chunk_read(rb, scratch, scratch_cap, 0);
			vop(r, 3, 0, 0);
			VLOG(r, "read -> %zd (written %u)\n", rc, nW);
			if (rc < 0) { if (judge_empty(r, rc, "read")) break; }
			else { if (judge_read(r, S, scratch, rc, "read", &skipped)) break; if (skipped) VCLASS(r, K_READOVER); }
		} else if ((op == 12 || op == 14) && !sem) {	/* ---- peek + reclaim */
			void *p = NULL;
			ssize_t rc = qb_rb_chunk_peek(rb, &p, 0);
			vop(r, 4, 0, 0);
			VLOG(r, "peek -> %zd\n", rc);
			if (rc < 0 || !p) { if (judge_empty(r, rc, "peek")) break; }
			else {
				if (judge_read(r, S, p, rc, "peek", &skipped)) break;
				qb_rb_chunk_reclaim(rb);
				VCLASS(r, K_PEEK);
			}
		} else if (verif_private_shm()) {	/* ---- non-destructive snapshot through a file, drained completely */
			char path[600];
			snprintf(path, sizeof path, "/dev/shm/c11-snap-%d", (int)getpid());	/* private tmpfs */
			int fd = open(path, O_CREAT | O_TRUNC | O_RDWR, 0600);
			if (fd < 0) { r->inconclusive = 1; break; }
			uint32_t rp0 = rb->shared_hdr->read_pt, wp0 = rb->shared_hdr->write_pt;
			ssize_t wr = qb_rb_write_to_file(rb, fd);
			vop(r, 5, 0, 0);
			if (wr < 0) { close(fd); unlink(path); VFAIL(r, "snapshot-write", "qb_rb_write_to_file returned %zd", wr); break; }
			lseek(fd, 0, SEEK_SET);
			qb_ringbuffer_t *copy = qb_rb_create_from_file(fd, 0);
			close(fd); unlink(path);
			if (!copy) { VFAIL(r, "snapshot-load", "qb_rb_create_from_file rejected a file qb_rb_write_to_file had just written"); break; }
			/* the run must end with the last chunk written, so chunk k of g is W[nW - g + k] */
			static uint64_t hs[MAXW]; static uint32_t ls[MAXW];
			unsigned got = 0;
			for (;;) {
				ssize_t rc = qb_rb_chunk_read(copy, scratch, scratch_cap, 0);
				if (rc < 0) break;
				if (got >= MAXW || got >= nW) { got = MAXW + 1; break; }
				ls[got] = rc; hs[got] = vhash_bytes(scratch, rc); got++;
			}
			qb_rb_close(copy);
			VLOG(r, "snapshot -> %u chunks (written %u)\n", got, nW);
			if (got > MAXW) { VFAIL(r, "snapshot-too-long", "snapshot drain returned more chunks than were ever written"); break; }
			unsigned start = nW - got; int bad = 0;
			for (unsigned k = 0; k < got; k++) {
				rb_fill_payload(expect, W[start + k].len, start + k, W[start + k].kind, W[start + k].salt);
				if (ls[k] != W[start + k].len || hs[k] != vhash_bytes(expect, ls[k])) {
					VFAIL(r, "snapshot-not-suffix", "snapshot of %u chunks is not the unbroken run of the last %u chunks written: position %u differs from chunk #%u", got, got, k, start + k);
					bad = 1; break;
				}
			}
			if (bad) break;
			int ok = 0;
			for (int k = 0; k < nworlds; k++) {
				unsigned c = worlds[k];
				if (c >= nW) { if (got == 0) ok = 1; continue; }
				if (got >= 1 && start >= c && start <= hi_of(c, S)) ok = 1;
				if (got >= 1 && start < c && got == nW - c) ok = 1;	/* unreachable: start < c means consumed chunks reappeared */
			}
			if (!ok) {
				if (got == 0) VFAIL(r, "nothing-retained", "snapshot holds no chunk although chunks were written since the last consumed one");
				else VFAIL(r, "snapshot-retention", "snapshot holds the last %u chunks; that is either fewer than the newest chunks that fit S=%lld (16 bytes overhead each) or includes chunks already consumed", got, (long long)S);
				break;
			}
			if (rb->shared_hdr->read_pt != rp0 || rb->shared_hdr->write_pt != wp0) { VFAIL(r, "snapshot-destructive", "taking a snapshot moved the ring's read/write position"); break; }
			VCLASS(r, K_SNAP); if (wraps) VCLASS(r, K_SNAPWRAP);
		}
	}
	/* final drain: an unbroken run ending with the very last chunk written */
	if (!r->fail && nW < MAXW) {
		for (unsigned guard = 0; guard <= nW; guard++) {
			ssize_t rc = qb_rb_chunk_read(rb, scratch, scratch_cap, 0);
			if (rc < 0) { judge_empty(r, rc, "drain"); break; }
			if (judge_read(r, S, scratch, rc, "drain", &skipped)) break;
			if (guard == nW) VFAIL(r, "drain-endless", "drain returned more chunks than were written");
		}
	}
	qb_rb_close(rb);
	if (!r->fail && verif_private_shm()) {
		char first[256] = "";
		if (shm_entries(first, sizeof first) > 0) VFAIL(r, "shm-residue", "file %s left in /dev/shm after close", first);
	}
	r->nontrivial = multi && wraps >= 2;
	return 0;
}
