/*
 * C05 - admission: only accepted peers get channels; their files stay private.
 *
 * The server runs in this (root) process, stepped by the case (ipc_common.h); 1-4 clients are forked
 * processes that switch to generated credentials (real = effective = saved, or effective different
 * from real) and call the real qb_ipcc_connect concurrently.  The accept callback takes the case's
 * decision per client: refuse with a generated error code, or accept and (optionally) authorise a
 * generated owner/group/mode with qb_ipcs_connection_auth_set.
 * Oracle: accept's uid/gid arguments equal the client's effective ids; a refused client's connect
 * fails with exactly that code, nothing of it is left in /dev/shm and msg_process never runs for it;
 * everything below /dev/shm that belongs to an accepted client is, at every libc-call boundary of the
 * server (interposed observer), not more permissive than the chosen mode, and once the client is
 * connected it is owned by the authorised user and group.
 */
#define IPC_COMMON_REAL_POLL
#include "ipc_common.h"
#include <sys/wait.h>
#include <sys/stat.h>
#include <grp.h>
#include <signal.h>
#include <time.h>
#include <map>
#include "vcrash.h"

const char *verif_property = "C05";
const char *verif_class_names[] = { "refused", "accepted_default_auth", "accepted_custom_owner", "accepted_custom_mode", "non_root_client", "effective_differs_from_real", "concurrent_mix",
	"refused_and_accepted_together", "moments_observed_100", "shm", "socket", "client_talked", "auth_set_leaves_an_id_alone", NULL };
enum { K_REFUSED, K_DEFAULT, K_OWNER, K_MODE, K_NONROOT, K_EUID, K_CONC, K_MIX, K_MOMENTS, K_SHM, K_SOCK, K_TALKED, K_KEEPID };
const char *verif_rule =
	"case = transport and 1-4 forked clients, each with generated credentials (uid/gid from {0, 1000..1005}/{0, 2000..2003}, sometimes effective != real), an accept decision (refuse with one of 10 "
	"error codes, or accept with default / generated owner, group and mode) and the server step choices that interleave them; non-trivial = at least one non-root client and at least one custom "
	"owner/mode or refusal; distinct = hash of the decoded case";
int verif_fork_per_case = 1;
int verif_case_timeout_ms = 40000;
int verif_hang_is_violation = 1;
int verif_nondeterministic = 1;
size_t verif_max_size = 100;
size_t verif_min_size = 10;

static struct verif_report *R;
static struct vr V;
static qb_ipcs_service_t *S;

extern "C" ssize_t __real_write(int, const void *, size_t);
extern "C" int __real_close(int);
static double now_ms(void) { struct timespec ts; clock_gettime(CLOCK_MONOTONIC, &ts); return ts.tv_sec * 1e3 + ts.tv_nsec / 1e6; }
static void msleep(int ms) { struct timespec ts = { ms / 1000, (ms % 1000) * 1000000L }; nanosleep(&ts, NULL); }

struct client {
	pid_t pid; uid_t ruid, euid; gid_t rgid, egid;
	bool refuse; int err;				/* decision */
	bool custom; uid_t auid; gid_t agid; mode_t amode;	/* authorisation (custom or default): what the files must end up with */
	bool keep_uid, keep_gid;	/* the callback passes -1 for that id (chown's 'leave it alone'): the server's own id stays */
	bool talk;
	int to_child, from_child; std::string rep; bool dead;
	bool accept_seen; bool msg_seen; bool connected; bool reported_fail; int reported_errno;
};
static std::vector<client> CL;
static long moments;

static client *by_pid(pid_t p) { for (auto &c : CL) if (c.pid == p) return &c; return NULL; }

/* ---- the observer: runs before every libc call of the server; looks at everything below /dev/shm */
static pid_t cpid_of(const char *name)
{
	/* qb-<serverpid>-<clientpid>-<fd>-XXXXXX */
	int sp, cp;
	if (sscanf(name, "qb-%d-%d-", &sp, &cp) == 2) return (pid_t)cp;
	return 0;
}
static void check_entry(const std::string &path, const struct stat &st, client &c, bool stable)
{
	mode_t m = st.st_mode & 07777;
	if (S_ISDIR(st.st_mode)) {
		if (m & 0007) VFAIL(R, "directory-open-to-others", "%s has mode %04o: others can get in (client uid %d gid %d)", path.c_str(), m, (int)c.euid, (int)c.egid);
	} else {
		if (m & ~c.amode & 0777) VFAIL(R, "file-more-permissive", "%s has mode %04o, the accept callback chose %04o", path.c_str(), m, c.amode);
	}
	if (stable && !R->fail) {
		/* an id the callback left alone (-1, as for chown) stays what it was: the server's for the files it creates; the directory has been handed to the client's ids before the callback runs */
		bool uid_ok = st.st_uid == c.auid || (c.keep_uid && S_ISDIR(st.st_mode) && st.st_uid == c.euid);
		bool gid_ok = st.st_gid == c.agid || (c.keep_gid && S_ISDIR(st.st_mode) && st.st_gid == c.egid);
		if (!uid_ok || !gid_ok)
			VFAIL(R, "wrong-owner", "%s is owned by %d:%d, the accept callback authorised %d:%d (client is %d:%d)", path.c_str(), (int)st.st_uid, (int)st.st_gid, (int)c.auid, (int)c.agid, (int)c.euid, (int)c.egid);
	}
}
static void scan(bool stable_pass)
{
	DIR *d = opendir("/dev/shm"); struct dirent *e;
	if (!d) return;
	while ((e = readdir(d)) && !R->fail) {
		if (e->d_name[0] == '.') continue;
		pid_t cp = cpid_of(e->d_name);
		client *c = by_pid(cp);
		if (!c) continue;
		std::string p = std::string("/dev/shm/") + e->d_name;
		struct stat st;
		if (lstat(p.c_str(), &st)) continue;
		/* before the accept callback has spoken the directory exists with the defaults (peer's ids) */
		bool stable = stable_pass && c->connected;
		if (!c->accept_seen) { if ((st.st_mode & 0007)) VFAIL(R, "directory-open-to-others", "%s has mode %04o before the accept decision", p.c_str(), st.st_mode & 07777); continue; }
		if (c->refuse) continue;	/* checked for absence at the end */
		check_entry(p, st, *c, stable);
		if (S_ISDIR(st.st_mode)) {
			DIR *d2 = opendir(p.c_str()); struct dirent *e2;
			if (!d2) continue;
			while ((e2 = readdir(d2)) && !R->fail) {
				if (e2->d_name[0] == '.') continue;
				std::string p2 = p + "/" + e2->d_name;
				if (lstat(p2.c_str(), &st)) continue;
				check_entry(p2, st, *c, stable);
			}
			closedir(d2);
		}
	}
	closedir(d);
}
static void observer(const char *call) { (void)call; if (!R || R->fail) return; moments++; scan(false); }

/* ---- server callbacks */
static int32_t s_accept(qb_ipcs_connection_t *c, uid_t uid, gid_t gid)
{
	client *k = by_pid(c->pid);
	if (!k) { VFAIL(R, "accept-unknown-peer", "connection_accept for pid %d which is none of the clients", (int)c->pid); return -EACCES; }
	k->accept_seen = true;
	VLOG(R, "  [cb] accept(pid %d, uid %d, gid %d) -> %s\n", (int)c->pid, (int)uid, (int)gid, k->refuse ? "refuse" : "accept");
	if (uid != k->euid || gid != k->egid)
		VFAIL(R, "wrong-credentials", "connection_accept was given uid %d gid %d for a client whose effective ids are %d:%d (real %d:%d)", (int)uid, (int)gid, (int)k->euid, (int)k->egid, (int)k->ruid, (int)k->rgid);
	if (k->refuse) return -k->err;
	if (k->custom) qb_ipcs_connection_auth_set(c, k->keep_uid ? (uid_t)-1 : k->auid, k->keep_gid ? (gid_t)-1 : k->agid, k->amode);
	return 0;
}
static void s_created(qb_ipcs_connection_t *) {}
static int32_t s_msg(qb_ipcs_connection_t *c, void *data, size_t)
{
	client *k = by_pid(c->pid);
	if (!k) { VFAIL(R, "msg-unknown-peer", "msg_process for pid %d which is none of the clients", (int)c->pid); return 0; }
	if (k->refuse) VFAIL(R, "msg-from-refused-peer", "msg_process ran for the refused client (pid %d)", (int)c->pid);
	k->msg_seen = true;
	struct qb_ipc_request_header *h = (struct qb_ipc_request_header *)data;
	struct qb_ipc_response_header rh; rh.id = h->id; rh.size = sizeof rh; rh.error = 0;
	qb_ipcs_response_send(c, &rh, sizeof rh);
	return 0;
}
static int32_t s_closed(qb_ipcs_connection_t *) { return 0; }
static void s_destroyed(qb_ipcs_connection_t *) {}

/* ---- a client process; never returns */
static void client_main(const char *name, const client &k, int rfd, int gofd)
{
	char b[64]; int n;
	if (setgroups(0, NULL)) {}
	if (k.rgid == k.egid) { if (setresgid(k.rgid, k.rgid, k.rgid)) _exit(8); } else { if (setresgid(k.rgid, k.egid, k.rgid)) _exit(8); }
	if (k.ruid == k.euid) { if (setresuid(k.ruid, k.ruid, k.ruid)) _exit(9); } else { if (setresuid(k.ruid, k.euid, k.ruid)) _exit(9); }
	qb_ipcc_connection_t *c = qb_ipcc_connect(name, 0);
	if (!c) { n = snprintf(b, sizeof b, "F %d\n", errno); if (__real_write(rfd, b, n) < 0) {} _exit(0); }
	if (__real_write(rfd, "OK\n", 3) < 0) {}
	if (k.talk) {
		struct qb_ipc_request_header h; h.id = 7; h.size = sizeof h; char buf[256];
		ssize_t rc = qb_ipcc_send(c, &h, sizeof h);
		if (rc >= 0) rc = qb_ipcc_recv(c, buf, sizeof buf, 3000);
		n = snprintf(b, sizeof b, "T %zd\n", rc); if (__real_write(rfd, b, n) < 0) {}
	}
	char x; if (read(gofd, &x, 1) < 0) {}	/* stay connected until the parent has looked */
	qb_ipcc_disconnect(c);
	_exit(0);
}

extern "C" void verif_init(void) { signal(SIGPIPE, SIG_IGN); }

extern "C" int verif_case(const uint8_t *data, size_t size, struct verif_report *r)
{
	vr_init(&V, data, size);
	R = r; DISP.clear(); JOBS.clear(); CL.clear(); moments = 0;
	if (geteuid() != 0) { r->inconclusive = 1; return 0; }
	enum qb_ipc_type type = vr_bool(&V) ? QB_IPC_SHM : QB_IPC_SOCKET;
	VCLASS(r, type == QB_IPC_SHM ? K_SHM : K_SOCK);
	std::string name = ipc_name();
	struct qb_ipcs_service_handlers sh = { s_accept, s_created, s_msg, s_closed, s_destroyed };
	S = qb_ipcs_create(name.c_str(), 0, type, &sh);
	if (!S) { r->inconclusive = 1; return 0; }
	qb_ipcs_poll_handlers_set(S, &POLLH);
	if (qb_ipcs_run(S) != 0) { r->inconclusive = 1; return 0; }
	vop(r, 0xC05, type, 0);

	static const int ERRS[] = { EACCES, EPERM, EAGAIN, ENOMEM, EINVAL, EBUSY, ECONNREFUSED, ENOENT, EIO, 200 };
	/* the library creates every file 0600 and then applies the chosen mode: modes that take owner read/write away are not generated (owner-only is the statement's own default) */
	static const mode_t MODES[] = { 0600, 0660, 0640, 0606, 0666, 0644, 0604, 0620 };
	int ncl = 1 + vr_u8(&V) % 4;
	bool any_nonroot = false, any_special = false, any_ref = false, any_acc = false;
	CL.resize(ncl);
	for (int i = 0; i < ncl; i++) {
		client &k = CL[i];
		unsigned u = vr_u8(&V) % 7, g = vr_u8(&V) % 5;
		k.ruid = k.euid = u == 0 ? 0 : 999 + u; k.rgid = k.egid = g == 0 ? 0 : 1999 + g;
		unsigned split = vr_u8(&V) % 6;
		if (split == 0) { unsigned u2 = vr_u8(&V) % 7; k.euid = u2 == 0 ? 0 : 999 + u2; if (k.ruid != 0 && k.euid != k.ruid) { /* only root may pick an unrelated euid */ k.ruid = 0; } }
		if (split == 1) { unsigned g2 = vr_u8(&V) % 5; k.egid = g2 == 0 ? 0 : 1999 + g2; }
		unsigned dec = vr_u8(&V) % 4;
		k.refuse = dec == 0; k.err = ERRS[vr_u8(&V) % 10];
		k.custom = dec >= 2; k.keep_uid = k.keep_gid = false;
		k.auid = k.euid; k.agid = k.egid; k.amode = 0600;
		if (k.custom) {
			unsigned w = vr_u8(&V);
			if (w & 1) { unsigned a = vr_u8(&V) % 7; k.auid = a == 0 ? 0 : 999 + a; if (a == 6) { k.keep_uid = true; k.auid = geteuid(); VCLASS(r, K_KEEPID); } }
			if (w & 2) { unsigned a = vr_u8(&V) % 5; k.agid = a == 0 ? 0 : 1999 + a; if (a == 4) { k.keep_gid = true; k.agid = getegid(); VCLASS(r, K_KEEPID); } }
			k.amode = (w & 4) ? MODES[vr_u8(&V) % 8] : 0600;
			if (k.auid != k.euid || k.agid != k.egid) VCLASS(r, K_OWNER);
			if (k.amode != 0600) VCLASS(r, K_MODE);
		}
		k.talk = vr_bool(&V);
		k.dead = k.accept_seen = k.msg_seen = k.connected = k.reported_fail = false; k.reported_errno = 0; k.pid = 0;
		if (k.euid != 0) { VCLASS(r, K_NONROOT); any_nonroot = true; }
		if (k.euid != k.ruid || k.egid != k.rgid) VCLASS(r, K_EUID);
		if (k.refuse) { VCLASS(r, K_REFUSED); any_ref = true; any_special = true; } else { any_acc = true; if (!k.custom) VCLASS(r, K_DEFAULT); else any_special = true; }
		vop(r, k.euid * 16 + k.ruid, k.egid * 16 + k.rgid, dec); vop(r, k.err, k.auid * 8 + k.agid, k.amode);
		VLOG(r, "client %d: real %d:%d effective %d:%d; the server will %s", i, (int)k.ruid, (int)k.rgid, (int)k.euid, (int)k.egid, k.refuse ? "refuse" : "accept");
		if (k.refuse) VLOG(r, " with error %d\n", k.err); else if (k.custom) VLOG(r, " and authorise %d:%d mode %04o\n", (int)k.auid, (int)k.agid, k.amode); else VLOG(r, " with the defaults\n");
	}
	if (ncl >= 2) VCLASS(r, K_CONC);
	if (any_ref && any_acc) VCLASS(r, K_MIX);
	r->nontrivial = any_nonroot && any_special;

	fflush(NULL);
	for (int i = 0; i < ncl; i++) {
		client &k = CL[i];
		int up[2], down[2];
		if (pipe(up) || pipe(down)) { r->inconclusive = 1; return 0; }
		pid_t pid = fork();
		if (pid < 0) { r->inconclusive = 1; return 0; }
		if (pid == 0) {
			for (int fd = 3; fd < 256; fd++) if (fd != up[1] && fd != down[0]) __real_close(fd);
			client_main(name.c_str(), k, up[1], down[0]);
		}
		__real_close(up[1]); __real_close(down[0]);
		k.pid = pid; k.from_child = up[0]; k.to_child = down[1];
		fcntl(k.from_child, F_SETFL, O_NONBLOCK);
	}
	vcrash_set_hook(observer);
	/* ---- phase 1: everybody connects (or is refused) and talks */
	double t0 = now_ms();
	for (;;) {
		bool all = true;
		for (auto &k : CL) {
			char b[128]; ssize_t n = read(k.from_child, b, sizeof b);
			if (n > 0) k.rep.append(b, (size_t)n);
			if (k.rep.find("OK\n") != std::string::npos) k.connected = true;
			size_t f = k.rep.find("F ");
			if (f != std::string::npos && k.rep.find('\n', f) != std::string::npos) { k.reported_fail = true; k.reported_errno = atoi(k.rep.c_str() + f + 2); }
			bool done = k.reported_fail || (k.connected && (!k.talk || k.rep.find("T ") != std::string::npos));
			if (!k.dead) { int st; if (waitpid(k.pid, &st, WNOHANG) == k.pid) { k.dead = true;
				/* whatever it wrote before it exited is in the pipe now: read it before judging */
				for (;;) { ssize_t n2 = read(k.from_child, b, sizeof b); if (n2 <= 0) break; k.rep.append(b, (size_t)n2); }
				if (k.rep.find("OK\n") != std::string::npos) k.connected = true;
				{ size_t f2 = k.rep.find("F "); if (f2 != std::string::npos && k.rep.find('\n', f2) != std::string::npos) { k.reported_fail = true; k.reported_errno = atoi(k.rep.c_str() + f2 + 2); } } if (WIFEXITED(st) && (WEXITSTATUS(st) == 8 || WEXITSTATUS(st) == 9)) { vcrash_set_hook(NULL); r->inconclusive = 1; goto out; } } }
			if (!done && !k.dead) all = false;
		}
		if (r->fail) break;
		if (!server_step(vr_u8(&V))) { if (all) break; msleep(1); }
		if (now_ms() - t0 > 15000) { VFAIL(r, "clients-stuck", "not every client had connected or failed after 15 s"); break; }
	}
	if (!r->fail) { server_drain(500); scan(true); }
	/* ---- verdicts per client */
	for (size_t i = 0; i < CL.size() && !r->fail; i++) {
		client &k = CL[i];
		VLOG(r, "client %zu reports: %s\n", i, k.rep.empty() ? "(nothing)" : k.rep.substr(0, k.rep.size() - 1).c_str());
		if (k.refuse) {
			if (k.connected) VFAIL(r, "refused-client-connected", "client %zu was refused by the accept callback (error %d) but its qb_ipcc_connect succeeded", i, k.err);
			else if (k.reported_fail && k.reported_errno != k.err) VFAIL(r, "refusal-code-lost", "client %zu was refused with error %d but its qb_ipcc_connect failed with errno %d", i, k.err, k.reported_errno);
			else if (!k.reported_fail) VFAIL(r, "refused-client-no-result", "client %zu (refused) never reported the result of qb_ipcc_connect", i);
		} else {
			if (!k.connected && !k.custom) VFAIL(r, "accepted-client-failed", "client %zu was accepted with the default authorisation but its qb_ipcc_connect failed (errno %d)", i, k.reported_errno);
			if (k.connected && k.talk) { VCLASS(r, K_TALKED); if (!k.msg_seen) VFAIL(r, "request-lost", "client %zu was accepted and sent a request, msg_process never ran for it", i); }
		}
		if (!k.accept_seen && !r->fail) VFAIL(r, "accept-never-called", "connection_accept never ran for client %zu", i);
	}
	/* refused clients leave nothing behind (they are finished; accepted ones are still connected) */
	if (!r->fail) {
		DIR *d = opendir("/dev/shm"); struct dirent *e;
		while (d && (e = readdir(d))) { client *c = by_pid(cpid_of(e->d_name)); if (c && c->refuse) { VFAIL(r, "refused-client-residue", "/dev/shm/%s is left of a client that was refused", e->d_name); break; } }
		if (d) closedir(d);
	}
	if (moments >= 100) VCLASS(r, K_MOMENTS);
out:
	vcrash_set_hook(NULL);
	/* ---- phase 2: everybody leaves */
	for (auto &k : CL) { if (k.pid > 0) { if (__real_write(k.to_child, "g", 1) < 0) {} __real_close(k.to_child); } }
	t0 = now_ms();
	for (;;) {
		bool all = true;
		for (auto &k : CL) if (k.pid > 0 && !k.dead) { int st; if (waitpid(k.pid, &st, WNOHANG) == k.pid) k.dead = true; else all = false; }
		if (!server_step(0)) { if (all) break; msleep(1); }
		if (now_ms() - t0 > 8000) { for (auto &k : CL) if (k.pid > 0 && !k.dead) { kill(k.pid, SIGKILL); waitpid(k.pid, NULL, 0); k.dead = true; } break; }
	}
	for (auto &k : CL) if (k.pid > 0) __real_close(k.from_child);
	server_drain(1000);
	if (!r->fail && !r->inconclusive) {
		std::string first; int left = count_shm_entries(&first);
		if (left) VFAIL(r, "residue-after-disconnect", "%d entries are left in /dev/shm after every client disconnected (e.g. %s)", left, first.c_str());
	}
	qb_ipcs_destroy(S);
	server_drain(500);
	return 0;
}
