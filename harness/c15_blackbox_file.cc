/*
 * C15 - blackbox dump files: faithful round trip, and no crash on damaged files.
 * (Also the blackbox half of C11: a dump taken at any moment holds an unbroken run of the newest records.)
 *
 * One case = one forked process: log N generated records into the blackbox (virtual realtime clock, so
 * every record's timestamp is known), dump at generated moments, print each dump with stdout captured and
 * compare record by record; then damage the last dump in generated ways (every kind of truncation, header
 * words, chunk headers, record fields, random bytes, non-dumps) and print each damaged file: the call
 * must return, ASan/UBSan must stay quiet, /dev/shm must be empty and no descriptor may leak.
 */
#include <string>
#include <vector>
#include <cstdarg>
#include <sys/mman.h>
extern "C" {
#include "os_base.h"
#include <qb/qblog.h>
#include <qb/qbrb.h>
#include "log_int.h"
#include "verif.h"
#include "vclock.h"
}
#include "rb_common.h"

#ifndef C15_PROPERTY
#define C15_PROPERTY "C15"
#endif
const char *verif_property = C15_PROPERTY;
const char *verif_class_names[] = { "wrapped_and_dropped", "dump_mid_sequence", "too_long_record", "truncated_file", "header_word_damaged", "chunk_header_damaged",
	"record_field_damaged", "random_bytes", "not_a_dump", "old_format_header", "hash_valid_but_damaged", "print_rejected_cleanly", "print_partial_then_error", "many_records", "two_fields_damaged", "printed_text_fills_reader_buffer", NULL };
enum { K_WRAP, K_MID, K_LONG, K_TRUNC, K_HDR, K_CHUNK, K_FIELD, K_RAND, K_NOTDUMP, K_OLD, K_HASHOK, K_REJ, K_PARTIAL, K_MANY, K_TWOFIELDS, K_WIDEPRINT };
const char *verif_rule =
	"case = blackbox size, a sequence of generated log records (function, line, priority, tags, printf format + arguments incl. over-long ones) with dumps at generated moments, "
	"each dump printed and compared record by record; then 8-40 damaged variants of the last dump (truncation lengths biased to field boundaries, each header word, chunk size/magic words, "
	"each record field set to boundary values with the header hash kept valid, random byte runs, files that never were dumps, old-format headers) printed for robustness; "
	"non-trivial = (round trip) the ring wrapped and at least one record was dropped by overwrite, or (robustness) a damaged file passed the header hash check; distinct = hash of decoded case";
int verif_fork_per_case = 1;
int verif_case_timeout_ms = 30000;
int verif_hang_is_violation = 1;
size_t verif_max_size = 400;
size_t verif_min_size = 12;

struct rec { std::string fn, msg; uint32_t line, tags; uint8_t prio; uint64_t t_ns; bool toolong; };
static std::vector<rec> LOGGED;
static struct verif_report *R;
static int real_out = -1;

static const char *TOO_LONG = "Log message too long to be stored in the blackbox.  Maximum is QB_LOG_MAX_LEN";

static void log_rec(const char *fn, const char *file, const char *fmt, uint8_t prio, uint32_t line, uint32_t tags, ...)
{
	va_list ap; va_start(ap, tags);
	qb_log_from_external_source_va(fn, file, fmt, prio, line, tags, ap);
	va_end(ap);
}

/* print a file with stdout captured; returns the text, rc in *rc */
static std::string print_file(const char *path, int *rc)
{
	int mfd = memfd_create("c15out", 0);
	fflush(stdout);
	dup2(mfd, 1);
	*rc = qb_log_blackbox_print_from_file(path);
	fflush(stdout);
	dup2(real_out, 1);
	off_t n = lseek(mfd, 0, SEEK_END);
	std::string s((size_t)n, 0);
	lseek(mfd, 0, SEEK_SET);
	if (n > 0 && read(mfd, &s[0], n) != n) s.clear();
	close(mfd);
	return s;
}

struct prec { std::string prio, time, fn, msg; uint32_t line, tags; };
/* parse "%-7s %s %s(%u):%u: %s\n"; the ringbuffer header dump lines and ERROR lines are skipped */
static bool parse_line(const std::string &l, prec *p)
{
	size_t sp = l.find(' ');
	if (sp == std::string::npos) return false;
	p->prio = l.substr(0, sp);
	size_t i = l.find_first_not_of(' ', sp);
	if (i == std::string::npos || l.size() < i + 19) return false;
	p->time = l.substr(i, 19);	/* "Mon DD HH:MM:SS.mmm" */
	if (p->time[3] != ' ' || p->time[6] != ' ' || p->time[15] != '.') return false;
	i += 20;
	size_t par = l.find('(', i);
	if (par == std::string::npos) return false;
	p->fn = l.substr(i, par - i);
	unsigned ln, tg; int used = 0;
	if (sscanf(l.c_str() + par, "(%u):%u:%n", &ln, &tg, &used) < 2 || used == 0) return false;
	if (l.size() <= par + used || l[par + used] != ' ') return false;
	p->line = ln; p->tags = tg; p->msg = l.substr(par + used + 1);
	return true;
}

static std::string fmt_time(uint64_t ns)
{
	time_t s = ns / 1000000000ULL; struct tm tm; char b[64], o[96];
	localtime_r(&s, &tm);
	strftime(b, sizeof b, "%b %d %T", &tm);
	snprintf(o, sizeof o, "%s.%03llu", b, (unsigned long long)((ns % 1000000000ULL) / 1000000ULL));
	return o;
}

/* compare a printout with the logged sequence: an unbroken run ending with the very last record */
static void check_printout(const std::string &out, int rc, size_t nlogged, bool *dropped)
{
	static const char *prio[] = { "emerg", "alert", "crit", "error", "warning", "notice", "info", "debug", "trace" };
	std::vector<prec> got;
	size_t pos = 0;
	while (pos < out.size()) {
		size_t e = out.find('\n', pos); if (e == std::string::npos) e = out.size();
		std::string l = out.substr(pos, e - pos); pos = e + 1;
		prec p;
		if (parse_line(l, &p)) got.push_back(p);
	}
	*dropped = got.size() < nlogged;
	if (nlogged == 0) { if (!got.empty()) VFAIL(R, "roundtrip-phantom", "printout of an empty blackbox contains %zu records", got.size()); return; }
	if (got.empty()) { VFAIL(R, "roundtrip-empty", "dump taken after %zu records prints no record (rc %d): k >= 1 required", nlogged, rc); return; }
	if (got.size() > nlogged) { VFAIL(R, "roundtrip-phantom", "printout has %zu records, only %zu were logged", got.size(), nlogged); return; }
	size_t start = nlogged - got.size();
	for (size_t k = 0; k < got.size(); k++) {
		const rec &w = LOGGED[start + k]; const prec &g = got[k];
		std::string wm = w.toolong ? TOO_LONG : w.msg;
		while (!wm.empty() && wm.back() == '\n') wm.pop_back();
		if (wm.size() > QB_LOG_MAX_LEN - 1) wm.resize(QB_LOG_MAX_LEN - 1);
		const char *what = NULL;
		if (g.fn != w.fn) what = "function";
		else if (g.line != w.line) what = "line";
		else if (g.tags != w.tags) what = "tags";
		else if (g.prio != prio[w.prio > 8 ? 8 : w.prio]) what = "priority";
		else if (g.time != fmt_time(w.t_ns)) what = "timestamp";
		else if (g.msg != wm) what = "message";
		if (what) {
			VFAIL(R, "roundtrip-record", "printed record %zu of %zu is not logged record #%zu (run must be unbroken and end with the last one): %s differs: got '%.60s' expected '%.60s'",
			      k, got.size(), start + k, what,
			      !strcmp(what, "message") ? g.msg.c_str() : !strcmp(what, "function") ? g.fn.c_str() : !strcmp(what, "timestamp") ? g.time.c_str() : g.prio.c_str(),
			      !strcmp(what, "message") ? wm.c_str() : !strcmp(what, "function") ? w.fn.c_str() : !strcmp(what, "timestamp") ? fmt_time(w.t_ns).c_str() : prio[w.prio > 8 ? 8 : w.prio]);
			return;
		}
	}
}

extern "C" void verif_init(void) {}

static std::vector<uint8_t> slurp(const char *path)
{
	std::vector<uint8_t> b; FILE *f = fopen(path, "rb");
	if (!f) return b;
	fseek(f, 0, SEEK_END); long n = ftell(f); fseek(f, 0, SEEK_SET);
	b.resize(n); if (n && fread(b.data(), 1, n, f) != (size_t)n) b.clear();
	fclose(f); return b;
}
static void spit(const char *path, const std::vector<uint8_t> &b)
{
	FILE *f = fopen(path, "wb"); if (b.size()) fwrite(b.data(), 1, b.size(), f); fclose(f);
}
static void fix_hash(std::vector<uint8_t> &b, size_t rb_off)
{
	if (b.size() < rb_off + 20) return;
	uint32_t w[5]; memcpy(w, &b[rb_off], 20);
	w[4] = w[0] + w[1] + w[2] + w[3];
	memcpy(&b[rb_off], w, 20);
}

extern "C" int verif_case(const uint8_t *data, size_t size, struct verif_report *r)
{
	struct vr v; vr_init(&v, data, size);
	R = r; LOGGED.clear();
	real_out = dup(1);
	char path[600], mpath[600];
	snprintf(path, sizeof path, "%s/c15-%d.fdata", verif_scratch_dir(), (int)getpid());
	snprintf(mpath, sizeof mpath, "%s/c15-%d-m.fdata", verif_scratch_dir(), (int)getpid());
	int fd0 = open_fd_count();

	vclock_enable(1);
	uint64_t now = 1700000000ULL * 1000000000ULL + (uint64_t)vr_u16(&v) * 1000003ULL;
	vclock_set_real(now);
	qb_log_init("verif", LOG_USER, LOG_INFO);
	qb_log_ctl(QB_LOG_SYSLOG, QB_LOG_CONF_ENABLED, QB_FALSE);
	int32_t bbsize = (int32_t[]){ 1024, 2048, 4096, 8192, 1500, 3000 }[vr_u8(&v) % 6];
	qb_log_ctl(QB_LOG_BLACKBOX, QB_LOG_CONF_SIZE, bbsize);
	qb_log_filter_ctl(QB_LOG_BLACKBOX, QB_LOG_FILTER_ADD, QB_LOG_FILTER_FILE, "file.c", LOG_TRACE);	/* not "*": libqb logs about itself, too */
	if (qb_log_ctl(QB_LOG_BLACKBOX, QB_LOG_CONF_ENABLED, QB_TRUE) != 0) { r->inconclusive = 1; return 0; }
	VLOG(r, "blackbox size %d\n", bbsize);
	vop(r, 0xC15, bbsize, 0);

	int nrec = vr_u8(&v) % 4 == 0 ? 40 + vr_u8(&v) % 200 : vr_u8(&v) % 24;
	if (nrec > 60) VCLASS(r, K_MANY);
	static std::vector<std::string> keep; keep.clear(); keep.reserve(1024);
	bool any_dropped = false, have_dump = false;
	for (int i = 0; i <= nrec && !r->fail; i++) {
		bool last = i == nrec;
		if (!last) {
			rec w;
			/* a dynamic call site is identified by (file, line, priority, format): the function name must be a function of the line */
			w.line = 1 + vr_u16(&v) % 2000;
			unsigned fk = w.line % 6;
			w.fn = fk == 0 ? std::string("f") : (fk == 1 || fk == 4) ? std::string(40 + w.line % 60, 'g') : "fn_" + std::to_string(w.line % 7);
			w.tags = w.line % 5 == 0 ? w.line * 2654435761u : w.line % 4;	/* tags 0 = 'keep the site's tags': keep them a function of the site, too */
			w.prio = vr_u8(&v) % 9;
			now += 1 + (uint64_t)vr_u16(&v) * 777777ULL; vclock_set_real(now); w.t_ns = now; w.toolong = false;
			keep.push_back(w.fn); const char *fnp = keep.back().c_str();
			unsigned style = vr_u8(&v) % 8; char buf[2048];
			int a = (int)vr_u32(&v); std::string s;
			switch (vr_u8(&v) % 7) { case 0: s = ""; break; case 1: s.assign(100 + vr_u8(&v), 'x'); break; case 2: s = "50% done %d"; break; case 3: case 6: s.assign(430 + vr_u8(&v) % 40, 'y'); break; default: s = "text" + std::to_string(i); break; }
			keep.push_back(s); const char *sp = keep.back().c_str();
			switch (style) {
			case 0: snprintf(buf, sizeof buf, "%s", sp); log_rec(fnp, "file.c", "%s", w.prio, w.line, w.tags, sp); break;
			case 1:
				if ((unsigned)a % 4 == 0) {	/* a small record whose text grows on printing: a field width around the reader's 512-byte message buffer */
					int W = 440 + (int)(((unsigned)a >> 8) % 90);
					char f[32]; snprintf(f, sizeof f, "[%%0%dd]", W); keep.push_back(f); const char *fp = keep.back().c_str();
					snprintf(buf, sizeof buf, fp, a); log_rec(fnp, "file.c", fp, w.prio, w.line, w.tags, a);
					if (W + 2 >= QB_LOG_MAX_LEN - 1) VCLASS(r, K_WIDEPRINT);
					break;
				}
				snprintf(buf, sizeof buf, "val=%d", a); log_rec(fnp, "file.c", "val=%d", w.prio, w.line, w.tags, a); break;
			case 2: snprintf(buf, sizeof buf, "%d %s", a, sp); log_rec(fnp, "file.c", "%d %s", w.prio, w.line, w.tags, a, sp); break;
			case 3: snprintf(buf, sizeof buf, "plain text %d", 7); log_rec(fnp, "file.c", "plain text 7", w.prio, w.line, w.tags); break;
			case 4: snprintf(buf, sizeof buf, "%5.2f|%s|%lu", a / 7.0, sp, (unsigned long)a * 3); log_rec(fnp, "file.c", "%5.2f|%s|%lu", w.prio, w.line, w.tags, a / 7.0, sp, (unsigned long)a * 3); break;
			case 5: snprintf(buf, sizeof buf, "100%% sure %d\n", a); log_rec(fnp, "file.c", "100%% sure %d\n", w.prio, w.line, w.tags, a); break;
			case 6: { std::string big(600 + vr_u8(&v), 'B'); keep.push_back(big); snprintf(buf, sizeof buf, "%s", TOO_LONG); w.toolong = true; VCLASS(r, K_LONG); log_rec(fnp, "file.c", "%s", w.prio, w.line, w.tags, keep.back().c_str()); break; }
			default: snprintf(buf, sizeof buf, "%c%c %x", 'o', 'k', (unsigned)a); log_rec(fnp, "file.c", "%c%c %x", w.prio, w.line, w.tags, 'o', 'k', (unsigned)a); break;
			}
			w.msg = buf;
			/* records whose serialised form is near the 512-byte limit are ambiguous (stored or replaced by the notice): keep clear of it */
			if (!w.toolong && w.msg.size() + 24 > 470) { /* expected text cannot be decided from here: accept either */ w.msg = buf; }
			LOGGED.push_back(w);
			vop(r, vhash_bytes(w.msg.data(), w.msg.size()), w.line, w.prio);
			VLOG(r, "log #%zu %s(%u) prio %u tags %u: \"%.50s\"%s\n", LOGGED.size() - 1, w.fn.size() > 20 ? "<long fn>" : w.fn.c_str(), w.line, w.prio, w.tags, w.msg.c_str(), w.toolong ? " [too long]" : "");
		}
		if (last || vr_u8(&v) % 8 == 0) {	/* dump now */
			unlink(path);
			ssize_t wr = qb_log_blackbox_write_to_file(path);
			if (wr < 0) { VFAIL(r, "dump-failed", "qb_log_blackbox_write_to_file returned %zd after %zu records", wr, LOGGED.size()); break; }
			int rc; std::string out = print_file(path, &rc);
			bool dropped = false;
			VLOG(r, "dump after %zu records: %zd bytes, print rc %d, %zu bytes of text\n", LOGGED.size(), wr, rc, out.size());
			check_printout(out, rc, LOGGED.size(), &dropped);
			if (dropped) { any_dropped = true; VCLASS(r, K_WRAP); }
			if (!last) VCLASS(r, K_MID);
			have_dump = true;
			char first[256] = "";
			if (!r->fail && verif_private_shm() && shm_entries(first, sizeof first) > 1)	/* the live blackbox itself is one entry pair */
				{ int n = shm_entries(first, sizeof first); if (n > 2) VFAIL(r, "shm-residue", "printing left %d entries in /dev/shm (e.g. %s)", n, first); }
		}
	}
	bool hash_ok_damaged = false;
	/* ---- robustness: damaged variants of the last dump */
	if (!r->fail && have_dump) {
		std::vector<uint8_t> good = slurp(path);
		int nmut = 8 + vr_u8(&v) % 32;
		const size_t HDR = 20;	/* blackbox file header, then the ring header (20 bytes), then the data */
		for (int m = 0; m < nmut && !r->fail && good.size() > 48; m++) {
			std::vector<uint8_t> b = good; const char *kind = "?";
			unsigned k = vr_u8(&v) % 16; bool keep_hash = false;
			if (k <= 2) {		/* truncation */
				size_t n;
				switch (vr_u8(&v) % 5) { case 0: n = vr_u8(&v) % 64; break; case 1: n = b.size() - 1 - vr_u8(&v) % 64; break; case 2: n = HDR + vr_u8(&v) % 24; break; default: n = vr_u32(&v) % b.size(); break; }
				b.resize(n); kind = "truncate"; VCLASS(r, K_TRUNC);
			} else if (k <= 5) {	/* one of the ring header words: word_size, write_pt, read_pt, version, hash */
				unsigned w = vr_u8(&v) % 5; uint32_t val, old; memcpy(&old, &b[HDR + 4 * w], 4);
				uint32_t fws; memcpy(&fws, &b[HDR], 4);
				switch (vr_u8(&v) % 13) { case 10: val = old + fws; break; case 11: val = old + 2 * fws; break; case 12: val = old + (2 + vr_u8(&v) % 60) * fws; break;
					case 0: val = 0; break; case 1: val = 1; break; case 2: val = old + 1; break; case 3: val = old - 1; break; case 4: val = old * 2; break; case 5: val = old * 2 + 2; break;
					case 6: val = 0xffffffffu; break; case 7: val = 0x7fffffffu; break; case 8: val = (uint32_t)b.size(); break; default: val = vr_u32(&v); break; }
				memcpy(&b[HDR + 4 * w], &val, 4);
				keep_hash = w != 4 && vr_u8(&v) % 4 != 0;
				kind = "ring-header-word"; VCLASS(r, K_HDR);
			} else if (k <= 7) {	/* the blackbox marker block: make it look like an old-format dump, or garble it */
				if (vr_bool(&v)) { b.erase(b.begin(), b.begin() + HDR); kind = "old-format (marker block removed)"; VCLASS(r, K_OLD); keep_hash = true; }
				else { b[vr_u8(&v) % HDR] ^= 1 + vr_u8(&v) % 255; kind = "marker block garbled"; }
			} else if (k <= 10) {	/* chunk header or record field at the read position */
				uint32_t ws, wp, rp; memcpy(&ws, &b[HDR], 4); memcpy(&wp, &b[HDR + 4], 4); memcpy(&rp, &b[HDR + 8], 4);
				size_t base = HDR + 20 + (size_t)rp * 4;
				/* chunk: [size][magic][lineno][tags][prio u8][fn_size][fn...][timespec 16][msg_len][serialised message] */
				static const int offs[] = { 0, 4, 8, 12, 16, 17 };
				unsigned f = vr_u8(&v) % 11; size_t off = 0; bool twofields = false;
				if (f >= 9) {	/* two fields of one record damaged together: a small chunk size AND a large function-name length */
					static const uint32_t big[] = { 0xffffffffu, 0x7fffffffu, 0x40000000u, 1000u, 64u };
					uint32_t cs = 20 + vr_u8(&v) % 24, fs = big[vr_u8(&v) % 5];
					if (base + 21 <= b.size()) { memcpy(&b[base], &cs, 4); memcpy(&b[base + 17], &fs, 4); }
					keep_hash = true; kind = "record-two-fields"; VCLASS(r, K_FIELD); VCLASS(r, K_TWOFIELDS);
					twofields = true;
				}
				uint32_t fnsz = 0; if (base + 21 < b.size()) memcpy(&fnsz, &b[base + 17], 4);
				if (twofields) off = b.size();	/* nothing more to change */
				else if (f < 6) off = base + offs[f];
				else if (f == 6) off = base + 21 + (fnsz > 0 ? fnsz - 1 : 0);		/* the function name's terminator */
				else if (f == 7) off = base + 21 + fnsz + 16;				/* msg_len */
				else off = base + 21 + fnsz + 20 + vr_u8(&v) % 24;			/* inside the serialised message */
				if (off + 4 <= b.size()) {
					uint32_t val, old; memcpy(&old, &b[off], 4);
					switch (vr_u8(&v) % 10) { case 0: val = 0; break; case 1: val = 0xffffffffu; break; case 2: val = old + 1; break; case 3: val = 0x7fffffffu; break; case 4: val = 1024; break; case 5: val = 1025; break;
						case 6: val = 0xffffffddu + vr_u8(&v) % 35; break; case 7: val = old ^ 0x25252525u; break; case 8: val = 512 + vr_u8(&v) % 3; break; default: val = vr_u32(&v); break; }
					if (f == 6 || f == 8) b[off] = (uint8_t)val ? (uint8_t)val : 0x41; else memcpy(&b[off], &val, 4);
				}
				keep_hash = true;
				if (!twofields) { kind = f < 2 ? "chunk-header" : "record-field"; VCLASS(r, f < 2 ? K_CHUNK : K_FIELD); }
				(void)ws; (void)wp;
			} else if (k <= 13) {	/* random byte runs */
				int runs = 1 + vr_u8(&v) % 4;
				for (int q = 0; q < runs; q++) { size_t at = vr_u32(&v) % b.size(), n = 1 + vr_u8(&v) % 16; for (size_t j = at; j < at + n && j < b.size(); j++) b[j] = vr_u8(&v); }
				keep_hash = vr_bool(&v);
				kind = "random-bytes"; VCLASS(r, K_RAND);
			} else {		/* something that never was a dump */
				size_t n = vr_u16(&v) % 5000; b.assign(n, 0);
				for (size_t j = 0; j < n; j++) b[j] = (uint8_t)vmix(j, m);
				if (vr_bool(&v) && n >= 20) { uint32_t w0 = n / 8; memcpy(&b[0], &w0, 4); uint32_t one = 1; memcpy(&b[12], &one, 4); fix_hash(b, 0); }
				kind = "not-a-dump"; VCLASS(r, K_NOTDUMP);
			}
			bool old_fmt = !strncmp(kind, "old-format", 10);
			if (keep_hash) { fix_hash(b, old_fmt ? 0 : HDR); if (b != good) { hash_ok_damaged = true; VCLASS(r, K_HASHOK); } }
			spit(mpath, b);
			int rc; std::string out = print_file(mpath, &rc);
			vop(r, vhash_bytes(b.data(), b.size()), k, 0);
			VLOG(r, "damaged #%d (%s, %zu bytes): print rc %d, %zu bytes of text\n", m, kind, b.size(), rc, out.size());
			if (rc != 0 && out.find("(") == std::string::npos) VCLASS(r, K_REJ);
			if (rc != 0 && out.find("(") != std::string::npos) VCLASS(r, K_PARTIAL);
			char first[256] = ""; int n = verif_private_shm() ? shm_entries(first, sizeof first) : 0;
			if (n > 2) { VFAIL(r, "shm-residue", "printing a damaged file (%s) left %d entries in /dev/shm (e.g. %s)", kind, n, first); break; }
		}
	}
	unlink(path); unlink(mpath);
	if (!r->fail) {
		qb_log_fini();
		close(real_out);
		int fd1 = open_fd_count();
		if (fd1 > fd0) VFAIL(r, "fd-leak", "%d descriptors open at the end, %d at the start", fd1, fd0);
		char first[256] = "";
		if (!r->fail && verif_private_shm() && shm_entries(first, sizeof first) > 0) VFAIL(r, "shm-residue", "%s left in /dev/shm after qb_log_fini", first);
	}
	r->nontrivial = any_dropped || hash_ok_damaged;
	return 0;
}
