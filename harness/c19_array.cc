/*
 * C19 (sequential part) - growable array: stable, disjoint, zero-initialised element addresses.
 * Oracle: map index -> (address, last written pattern), address interval map for overlap.
 */
#include <map>
#include <set>
#include <vector>
extern "C" {
#include "os_base.h"
#include <qb/qbarray.h>
#include "verif.h"
}

const char *verif_property = "C19";
const char *verif_class_names[] = { "table_realloc_then_recheck", "autogrow", "range_error", "bin_boundary", "top_of_range", "negative_index",
	"grow_call", "grow_rejected", "new_bin_cb", "revisit_written", NULL };
enum { K_REALLOC, K_AUTOGROW, K_RANGE, K_BINB, K_TOP, K_NEG, K_GROW, K_GROWREJ, K_CB, K_REVISIT };
const char *verif_rule =
	"case = element size 1..300, initial size 0..65536, autogrow 0..16, then an op list of index(i)/grow(n)/write/verify with i and n over the whole int32 range, "
	"biased to bin boundaries (multiples of 16 +-1), 65535/65536 and negatives; non-trivial = a growth that reallocates the bin table happened while an element "
	"address obtained earlier is checked again afterwards; distinct = hash of decoded op list";
int verif_fork_per_case = 0;
int verif_case_timeout_ms = 20000;
int verif_hang_is_violation = 0;
size_t verif_max_size = 300;
size_t verif_min_size = 8;

struct melem { char *addr; bool written; uint32_t pat; };
static std::set<uint32_t> bins_announced;
static int dup_bin;
static void bin_cb(qb_array_t *a, uint32_t bin) { (void)a; if (!bins_announced.insert(bin).second) dup_bin = 1; }

extern "C" void verif_init(void) {}

static int32_t pick_index(struct vr *v, int64_t size)
{
	switch (vr_u8(v) % 10) {
	case 0: return (int32_t)(vr_u8(v) % 40);
	case 1: return (int32_t)((int64_t)16 * (int64_t)(vr_u16(v) % 4096) + (int)(vr_u8(v) % 3) - 1);
	case 2: return (int32_t)(size + (int)(vr_u8(v) % 5) - 2);
	case 3: return 65535 - (int32_t)(vr_u8(v) % 3);
	case 4: return 65536 + (int32_t)(vr_u8(v) % 3);
	case 5: return -(int32_t)(1 + vr_u8(v) % 3);
	case 6: return (int32_t)vr_u32(v);
	case 7: return (int32_t)(vr_u16(v));
	case 8: return (int32_t)(size > 0 ? vr_u32(v) % size : 0);
	default: return INT32_MAX - (int32_t)(vr_u8(v) % 2);
	}
}

extern "C" int verif_case(const uint8_t *data, size_t size, struct verif_report *r)
{
	struct vr v; vr_init(&v, data, size);
	size_t esz = 1 + vr_u16(&v) % 300;
	int64_t cur;
	switch (vr_u8(&v) % 6) {
	case 0: cur = 0; break;
	case 1: cur = vr_u8(&v) % 64; break;
	case 2: cur = (int64_t)16 * (int64_t)(vr_u8(&v) % 8) + (int)(vr_u8(&v) % 3) - 1; break;
	case 3: cur = 65536 - (vr_u8(&v) % 3); break;
	default: cur = vr_u16(&v); break;
	}
	if (cur < 0) cur = 0;
	size_t autogrow = vr_u8(&v) % 17;
	if (vr_u8(&v) % 3 == 0) autogrow = 0;
	bool with_cb = vr_bool(&v);
	std::map<int32_t, melem> elems;
	std::map<uintptr_t, int32_t> by_addr;
	bool realloc_seen = false, nontrivial = false;
	bins_announced.clear(); dup_bin = 0;

	qb_array_t *a = qb_array_create_2(cur, esz, autogrow);
	if (!a) { VFAIL(r, "create", "qb_array_create_2(%lld, %zu, %zu) failed", (long long)cur, esz, autogrow); return 0; }
	if (with_cb) { qb_array_new_bin_cb_set(a, bin_cb); VCLASS(r, K_CB); }
	size_t bins0 = qb_array_num_bins_get(a);
	VLOG(r, "create size=%lld element=%zu autogrow=%zu cb=%d\n", (long long)cur, esz, autogrow, with_cb);
	vop(r, 0xC19, cur, esz * 32 + autogrow);

	while (!vr_eof(&v) && !r->fail) {
		unsigned op = vr_u8(&v) % 8;
		if (op <= 4) {			/* ---- index */
			int32_t i = pick_index(&v, cur);
			void *p = (void *)0x1;
			size_t bins_before = qb_array_num_bins_get(a);
			int rc = qb_array_index(a, i, &p);
			vop(r, 1, (uint32_t)i, 0);
			VLOG(r, "index %d -> %d\n", i, rc);
			bool in_size = i >= 0 && i < cur;
			bool growable = autogrow && i >= cur && i < 65536;
			if (i < 0) VCLASS(r, K_NEG);
			if (i >= 65533) VCLASS(r, K_TOP);
			if (i >= 0 && (i % 16 == 0 || i % 16 == 15)) VCLASS(r, K_BINB);
			if (in_size || growable) {
				if (rc != 0) { VFAIL(r, "index-refused", "index %d with size %lld autogrow %zu returned %d", i, (long long)cur, autogrow, rc); break; }
				if (growable) { cur = (int64_t)i + 1; VCLASS(r, K_AUTOGROW); }
			} else {
				VCLASS(r, K_RANGE);
				if (rc == 0) { VFAIL(r, "index-out-of-range-accepted", "index %d accepted although size is %lld, autogrow %zu", i, (long long)cur, autogrow); break; }
				if (i >= 0 && i < 65536 && !autogrow && rc != -ERANGE) { VFAIL(r, "index-wrong-error", "index %d beyond size %lld returned %d instead of -ERANGE", i, (long long)cur, rc); break; }
				continue;
			}
			if (qb_array_num_bins_get(a) != bins_before) realloc_seen = true;
			char *addr = (char *)p;
			auto e = elems.find(i);
			if (e != elems.end()) {
				if (e->second.addr != addr) { VFAIL(r, "address-moved", "index %d now at %p, was at %p", i, (void *)addr, (void *)e->second.addr); break; }
				if (realloc_seen) { nontrivial = true; VCLASS(r, K_REALLOC); }
				VCLASS(r, K_REVISIT);
			} else {
				/* storage of two different indices never overlaps */
				auto nx = by_addr.lower_bound((uintptr_t)addr);
				if (nx != by_addr.end() && nx->first < (uintptr_t)addr + esz) { VFAIL(r, "overlap", "index %d at %p overlaps index %d at %p (element size %zu)", i, (void *)addr, nx->second, (void *)nx->first, esz); break; }
				if (nx != by_addr.begin()) { auto pv = std::prev(nx); if (pv->first + esz > (uintptr_t)addr) { VFAIL(r, "overlap", "index %d at %p overlaps index %d at %p (element size %zu)", i, (void *)addr, pv->second, (void *)pv->first, esz); break; } }
				elems[i] = melem{ addr, false, 0 };
				by_addr[(uintptr_t)addr] = i;
				e = elems.find(i);
			}
			/* content: zero on first sight, else what was written last */
			for (size_t k = 0; k < esz; k++) {
				uint8_t want = e->second.written ? (uint8_t)(vmix(e->second.pat, k) >> 16) : 0;
				if ((uint8_t)addr[k] != want) { VFAIL(r, e->second.written ? "content-lost" : "not-zero", "index %d byte %zu is %02x, expected %02x", i, k, (uint8_t)addr[k], want); break; }
			}
			if (r->fail) break;
			/* bins are allocated lazily by index(), i.e. always after the callback was registered */
			if (with_cb && !bins_announced.count((uint32_t)i / 16)) { VFAIL(r, "new-bin-cb-missing", "bin %u holds index %d but the new_bin callback never announced it", (uint32_t)i / 16, i); break; }
			if (vr_bool(&v)) {	/* write a keyed pattern */
				e->second.written = true; e->second.pat = vr_u8(&v) * 2654435761u + (uint32_t)i;
				for (size_t k = 0; k < esz; k++) addr[k] = (char)(vmix(e->second.pat, k) >> 16);
			}
		} else if (op <= 6) {		/* ---- grow */
			int64_t n;
			switch (vr_u8(&v) % 6) {
			case 0: n = cur + 1 + vr_u8(&v) % 40; break;
			case 1: n = (int64_t)16 * (int64_t)(vr_u16(&v) % 4097) + (int)(vr_u8(&v) % 3) - 1; break;
			case 2: n = 65536 + (int)(vr_u8(&v) % 3) - 1; break;
			case 3: n = vr_u8(&v) % 32; break;
			case 4: n = (int64_t)vr_u32(&v); break;
			default: n = vr_u16(&v); break;
			}
			if (n < 0) n = 0;
			size_t bins_before = qb_array_num_bins_get(a);
			int rc = qb_array_grow(a, (size_t)n);
			vop(r, 2, n, 0);
			VLOG(r, "grow %lld -> %d\n", (long long)n, rc);
			VCLASS(r, K_GROW);
			if (n <= 65536) {
				if (rc != 0) { VFAIL(r, "grow-refused", "grow(%lld) returned %d", (long long)n, rc); break; }
				if (n > cur) cur = n;
			} else {
				VCLASS(r, K_GROWREJ);
				if (rc == 0) { VFAIL(r, "grow-beyond-max-accepted", "grow(%lld) accepted", (long long)n); break; }
			}
			if (qb_array_num_bins_get(a) != bins_before) realloc_seen = true;
		} else {			/* ---- re-verify a known element without going through index(): its memory must be intact */
			if (elems.empty()) continue;
			auto e = elems.begin(); std::advance(e, vr_u16(&v) % elems.size());
			for (size_t k = 0; k < esz; k++) {
				uint8_t want = e->second.written ? (uint8_t)(vmix(e->second.pat, k) >> 16) : 0;
				if ((uint8_t)e->second.addr[k] != want) { VFAIL(r, "content-lost", "element %d byte %zu changed behind the caller's back", e->first, k); break; }
			}
			vop(r, 3, e->first, 0);
		}
		if (dup_bin) { VFAIL(r, "new-bin-cb-twice", "new_bin callback fired twice for one bin"); break; }
	}
	/* every element seen lies in a bin; bins created after registration must have been announced exactly once */
	if (!r->fail && with_cb) {
		for (auto &e : elems) {
			uint32_t b = (uint32_t)e.first / 16;
			(void)b; (void)bins0;
		}
	}
	qb_array_free(a);
	r->nontrivial = nontrivial;
	return 0;
}
