/* C11 (blackbox half): the C15 round-trip harness registered under C11 - a dump taken at any moment holds an unbroken run of the newest records */
#define C15_PROPERTY "C11"
#include "c15_blackbox_file.cc"
