/*
 * ipc_common.h - shared plumbing of the in-process IPC harnesses (C02, C04, C06).
 *
 * Client AND server of a libqb IPC service run in ONE thread of one (forked) process.  The server's
 * poll handlers (dispatch_add/mod/del, job_add) are the harness's own tiny dispatcher, so "one
 * server step" = "dispatch one ready descriptor (or one queued job) chosen by the case".  The
 * client only uses zero-timeout calls, so nothing ever blocks and a case is a pure function of its
 * bytes (verified for both transports; see DESIGN.md 4/C02).
 */
#ifndef IPC_COMMON_H
#define IPC_COMMON_H
#include <vector>
#include <deque>
#include <string>
#include <poll.h>
#include <sys/socket.h>
extern "C" {
#include "os_base.h"
#include <qb/qbipcs.h>
#include <qb/qbipcc.h>
#include <qb/qbloop.h>
#include "ipc_int.h"
#include "verif.h"
}

/* harnesses that count the library's libc calls (C03) keep their own polling out of the count */
#ifdef IPC_COMMON_REAL_POLL
extern "C" int __real_poll(struct pollfd *, nfds_t, int);
#define IPC_POLL __real_poll
#else
#define IPC_POLL poll
#endif

struct dentry { int fd; int events; void *data; qb_ipcs_dispatch_fn_t fn; int prio; };
struct djob { void *data; qb_loop_job_dispatch_fn fn; int prio; };
static std::vector<dentry> DISP;
static std::deque<djob> JOBS;
static int disp_adds, disp_dels;

static int32_t h_dispatch_add(enum qb_loop_priority p, int32_t fd, int32_t ev, void *data, qb_ipcs_dispatch_fn_t fn)
{
	for (auto &e : DISP) if (e.fd == fd) return -EEXIST;
	DISP.push_back(dentry{ fd, ev, data, fn, (int)p }); disp_adds++;
	if (getenv("IPC_DEBUG")) fprintf(stderr, "   dispatch_add fd %d data %p\n", fd, data);
	return 0;
}
static int32_t h_dispatch_mod(enum qb_loop_priority p, int32_t fd, int32_t ev, void *data, qb_ipcs_dispatch_fn_t fn)
{
	for (auto &e : DISP) if (e.fd == fd) { e.events = ev; e.data = data; e.fn = fn; e.prio = (int)p; return 0; }
	return -ENOENT;
}
static int32_t h_dispatch_del(int32_t fd)
{
	for (size_t i = 0; i < DISP.size(); i++) if (DISP[i].fd == fd) { if (getenv("IPC_DEBUG")) fprintf(stderr, "   dispatch_del fd %d data %p\n", fd, DISP[i].data); DISP.erase(DISP.begin() + i); disp_dels++; return 0; }
	return -ENOENT;
}
static int32_t h_job_add(enum qb_loop_priority p, void *data, qb_loop_job_dispatch_fn fn)
{
	JOBS.push_back(djob{ data, fn, (int)p });
	return 0;
}
static struct qb_ipcs_poll_handlers POLLH = { h_job_add, h_dispatch_add, h_dispatch_mod, h_dispatch_del };

/* readiness of every registered descriptor right now */
static std::vector<std::pair<size_t, int>> ready_list(void)
{
	std::vector<std::pair<size_t, int>> out;
	for (size_t i = 0; i < DISP.size(); i++) {
		struct pollfd p = { DISP[i].fd, (short)DISP[i].events, 0 };
		if (IPC_POLL(&p, 1, 0) > 0 && p.revents) out.push_back({ i, p.revents });
	}
	return out;
}

/* one server step: dispatch one ready descriptor or one queued job, chosen by 'choice'.  returns 0 if there was nothing to do */
static int server_step(unsigned choice, bool jobs_too = true)
{
	auto rl = ready_list();
	size_t n = rl.size() + (jobs_too ? JOBS.size() : 0);
	if (n == 0) return 0;
	size_t k = choice % n;
	if (k < rl.size()) {
		dentry e = DISP[rl[k].first];
		int rc = e.fn(e.fd, rl[k].second, e.data);
		if (rc < 0) h_dispatch_del(e.fd);	/* what qb_loop does with a negative return */
	} else {
		djob j = JOBS[k - rl.size()];
		JOBS.erase(JOBS.begin() + (k - rl.size()));
		j.fn(j.data);
	}
	return 1;
}
static bool server_quiescent(void) { return ready_list().empty() && JOBS.empty(); }
static void server_drain(int max_steps = 2000) { for (int i = 0; i < max_steps && server_step(0); i++) ; }

static std::string ipc_name(void)
{
	static unsigned ctr;
	char b[64]; snprintf(b, sizeof b, "vq%d_%u", (int)getpid(), ctr++);
	return b;
}

/* connect a client while stepping the server; returns NULL (and *err) if the server refused */
static qb_ipcc_connection_t *client_connect(const char *name, size_t max_msg, int *err, unsigned step_choice = 0)
{
	int fd = -1;
	qb_ipcc_connection_t *c = qb_ipcc_connect_async(name, max_msg, &fd);
	if (!c) { *err = -errno; return NULL; }
	for (int i = 0; i < 50; i++) {
		struct pollfd p = { fd, POLLIN, 0 };
		if (IPC_POLL(&p, 1, 0) > 0) break;
		if (!server_step(step_choice)) break;
	}
	int rc = qb_ipcc_connect_continue(c);	/* frees c on failure */
	if (rc != 0) { *err = rc; return NULL; }
	*err = 0;
	return c;
}

static int count_open_fds(void)
{
	DIR *d = opendir("/proc/self/fd"); struct dirent *e; int c = 0;
	if (!d) return -1;
	while ((e = readdir(d))) c++;
	closedir(d);
	return c - 3;
}
static int count_shm_entries(std::string *first = NULL)
{
	DIR *d = opendir("/dev/shm"); struct dirent *e; int c = 0;
	if (!d) return -1;
	while ((e = readdir(d))) { if (!strcmp(e->d_name, ".") || !strcmp(e->d_name, "..")) continue; if (c == 0 && first) *first = e->d_name; c++; }
	closedir(d);
	return c;
}
/* regular files anywhere below /dev/shm (the per-connection directories themselves are not counted) */
static int count_shm_files(std::string *first = NULL, const char *dir = "/dev/shm")
{
	DIR *d = opendir(dir); struct dirent *e; int c = 0;
	if (!d) return 0;
	while ((e = readdir(d))) {
		if (!strcmp(e->d_name, ".") || !strcmp(e->d_name, "..")) continue;
		std::string p = std::string(dir) + "/" + e->d_name;
		struct stat st;
		if (lstat(p.c_str(), &st)) continue;
		if (S_ISDIR(st.st_mode)) c += count_shm_files(first, p.c_str());
		else { if (c == 0 && first && first->empty()) *first = p; c++; }
	}
	closedir(d);
	return c;
}
#endif
