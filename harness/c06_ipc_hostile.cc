/*
 * C06 - bytes from a peer never corrupt the other side, whatever they say.
 *
 * In-process server (see ipc_common.h) with a well-behaved control client, plus
 *  (a) raw stream sockets talking to the service socket: mutated / truncated / oversized / garbage
 *      handshakes, delivered in generated pieces with server steps in between, or nothing at all;
 *  (b) an accepted "victim" connection whose request channel is driven raw: datagrams (socket
 *      transport) or ring chunks (shm transport) whose header length field lies about the real size,
 *      real sizes from 0 to beyond the negotiated maximum.
 * Oracle: the server survives (ASan/UBSan clean, and a pre-check of every recv() destination, which
 * ASan's interceptor does not do), the control client gets a correct answer after every hostile step,
 * msg_process runs only for messages of accepted peers and reports a length that is at most what was
 * actually sent in that message and at most the negotiated maximum, with exactly the bytes sent; after
 * the peers are gone descriptors, dispatch registrations and /dev/shm entries are back to the baseline.
 */
#include "ipc_common.h"
#include <map>
#include <sys/un.h>
#include <sys/ioctl.h>
#include <qb/qbrb.h>
#include <qb/qbatomic.h>
extern "C" {
int __asan_address_is_poisoned(void const volatile *addr);
void *__asan_region_is_poisoned(void *beg, size_t size);
ssize_t __real_recv(int fd, void *buf, size_t len, int flags);
const char *__asan_default_options(void) { return "max_allocation_size_mb=300"; }
}

const char *verif_property = "C06";
const char *verif_class_names[] = { "handshake_prefix_then_close", "handshake_split_delivery", "handshake_field_mutated", "handshake_garbage", "handshake_oversized", "handshake_silent_peer",
	"hdr_size_larger_than_sent", "hdr_size_smaller_than_sent", "hdr_size_zero_or_negative", "sent_beyond_maximum", "shorter_than_header", "shm", "socket",
	"raw_peer_accepted", "victim_dropped_by_server", "honest_message", "accepted_client_negotiated_tiny_maximum", NULL };
enum { K_PREFIX, K_SPLIT, K_FIELD, K_GARBAGE, K_OVERSIZE, K_SILENT, K_LARGER, K_SMALLER, K_ZERONEG, K_BEYOND, K_SHORT, K_SHM, K_SOCK, K_RAWACC, K_DROPPED, K_HONEST, K_TINYMAX };
const char *verif_rule =
	"case = transport and an op list: open a raw stream socket to the service, send a piece of a handshake (prefix of a valid request, a request with id/size/max_msg_size mutated, garbage, "
	"oversized tail), close / half-close it or leave it silent, step the server; raw request messages of an accepted client (real length 0..4x the negotiated maximum, header length field "
	"equal / smaller / larger / zero / negative), control round trips; non-trivial = a handshake that differs from a valid one was delivered in >= 2 pieces with server steps in between or cut "
	"short, or a message whose length field differs from its real length or whose real length exceeds the maximum; distinct = hash of the decoded op list";
int verif_fork_per_case = 1;
int verif_case_timeout_ms = 20000;
int verif_hang_is_violation = 1;
size_t verif_max_size = 300;
size_t verif_min_size = 12;

static struct verif_report *R;
static struct vr V;
static qb_ipcs_service_t *S;
static uint8_t *sbuf, *rbuf;
static bool nontriv;

enum { ROLE_CONTROL, ROLE_VICTIM, ROLE_RAW };
struct sconn { qb_ipcs_connection_t *p; int role; bool alive; };
static std::vector<sconn> SC;
static int next_role;			/* role of the next connection the accept callback sees */
static bool raw_accept_ok;		/* every open raw peer has sent nothing but (a prefix of) a sane valid request */
static int control_answers;
static bool victim_dropped;

struct sent { std::vector<uint8_t> bytes; int32_t hdr_size; bool delivered; };
static std::map<int32_t, sent> SENT;	/* by the id stamped into the header */
static int32_t next_id;
static size_t VICTIM_MAX;		/* negotiated maximum of the victim connection */

struct raw { int fd; size_t off; bool sane; bool open; int pieces; bool stepped_between; bool flushed; /* closed and the server has since gone idle */ };
static std::vector<raw> RAW;

/* ---- recv() pre-check: ASan's interceptor only looks at what the kernel reports as written */
extern "C" ssize_t __wrap_recv(int fd, void *buf, size_t len, int flags)
{
	if (len > 0 && buf) {
		int pending = 0;
		size_t n = len;
		if (ioctl(fd, FIONREAD, &pending) == 0 && pending >= 0 && (size_t)pending < n) n = (size_t)pending;
		if (n > 0) {
			void *bad = __asan_region_is_poisoned(buf, n);
			if (bad) {
				if (R) VFAIL(R, "recv-beyond-buffer", "recv(fd %d, len %zu) with %d bytes pending would write %zu bytes into a destination that is only %zu bytes long",
					     fd, len, pending, n, (size_t)((char *)bad - (char *)buf));
				len = (size_t)((char *)bad - (char *)buf);	/* keep the process alive to report */
			}
		}
	}
	return __real_recv(fd, buf, len, flags);
}

/* ---- send(): the next handshake request that leaves this process asks for the maximum message size the case chose (the client library never asks for less than 8 KiB; a hostile client can) */
extern "C" ssize_t __real_send(int fd, const void *buf, size_t len, int flags);
static int64_t tamper_max = -1;
extern "C" ssize_t __wrap_send(int fd, const void *buf, size_t len, int flags)
{
	if (tamper_max >= 0 && len == sizeof(struct qb_ipc_connection_request) && ((const struct qb_ipc_request_header *)buf)->id == QB_IPC_MSG_AUTHENTICATE) {
		struct qb_ipc_connection_request q; memcpy(&q, buf, sizeof q);
		q.max_msg_size = (uint32_t)tamper_max; tamper_max = -1;
		return __real_send(fd, &q, sizeof q, flags);
	}
	return __real_send(fd, buf, len, flags);
}

static sconn *find_sc(qb_ipcs_connection_t *c) { for (auto it = SC.rbegin(); it != SC.rend(); ++it) if (it->p == c && it->alive) return &*it; return NULL; }

extern "C" size_t __sanitizer_get_allocated_size(const volatile void *p);
static bool on_socket_transport;
static int32_t s_accept(qb_ipcs_connection_t *c, uid_t, gid_t)
{
	int role = next_role;
	/* the socket transport receives every request into the connection's receive buffer and gives the negotiated maximum as the room there is:
	   whatever size the peer asked for in its handshake, the two must agree by the time the connection is offered to the application */
	if (on_socket_transport) {
		struct qb_ipcs_connection *sc = (struct qb_ipcs_connection *)c;
		size_t room = sc->receive_buf ? __sanitizer_get_allocated_size(sc->receive_buf) : 0;
		if ((size_t)sc->request.max_msg_size > room)
			VFAIL(R, "receive-buffer-below-maximum", "a connection is offered to connection_accept with a negotiated maximum of %u bytes and a receive buffer of %zu bytes", sc->request.max_msg_size, room);
	}
	if (role == ROLE_RAW && !raw_accept_ok) { VLOG(R, "  [cb] accept (raw peer) -> refuse\n"); return -EACCES; }
	SC.push_back(sconn{ c, role, true });
	VLOG(R, "  [cb] accept -> ok (%s)\n", role == ROLE_CONTROL ? "control" : role == ROLE_VICTIM ? "victim" : "raw peer");
	if (role == ROLE_RAW) VCLASS(R, K_RAWACC);
	return 0;
}
static void s_created(qb_ipcs_connection_t *) {}
static int32_t s_closed(qb_ipcs_connection_t *c)
{
	sconn *s = find_sc(c);
	if (s && s->role == ROLE_VICTIM) { VLOG(R, "  [cb] closed (victim)\n"); victim_dropped = true; }
	return 0;
}
static void s_destroyed(qb_ipcs_connection_t *c) { sconn *s = find_sc(c); if (s) s->alive = false; }

static int32_t s_msg(qb_ipcs_connection_t *c, void *data, size_t size)
{
	sconn *s = find_sc(c);
	if (!s) { VFAIL(R, "msg-from-unaccepted-peer", "msg_process was called for a connection the accept callback never admitted"); return 0; }
	if (s->role == ROLE_RAW) { VFAIL(R, "msg-from-silent-peer", "msg_process was called (size %zu) for a peer that only ever wrote to the service socket", size); return 0; }
	if (s->role == ROLE_CONTROL) {
		struct qb_ipc_response_header h; h.id = 51; h.size = sizeof h; h.error = 0;
		if (size != 64) VFAIL(R, "control-size", "the control client's 64-byte request was reported with size %zu", size);
		qb_ipcs_response_send(c, &h, sizeof h);
		return 0;
	}
	/* the victim's message */
	if (size < sizeof(struct qb_ipc_request_header)) {
		/* too short to carry the stamp: nothing the statement forbids as long as it is no more than any message sent so far */
		size_t longest = 0; for (auto &kv : SENT) longest = QB_MAX(longest, kv.second.bytes.size());
		if (size > longest) VFAIL(R, "size-exceeds-received", "msg_process was told size %zu, the longest message sent so far has %zu bytes", size, longest);
		return 0;
	}
	int32_t id = ((struct qb_ipc_request_header *)data)->id;
	auto it = SENT.find(id);
	if (it == SENT.end()) { VFAIL(R, "msg-never-sent", "msg_process was handed a message with id %d (size %zu) that the client never sent in a header", id, size); return 0; }
	sent &m = it->second;
	VLOG(R, "  [cb] msg_process(victim, id %d, size %zu)  [really sent: %zu bytes, header says %d]\n", id, size, m.bytes.size(), m.hdr_size);
	if (size > m.bytes.size())
		VFAIL(R, "size-exceeds-received", "msg_process was told size %zu for a message of which only %zu bytes were sent (its header claims %d)", size, m.bytes.size(), m.hdr_size);
	else if (size > VICTIM_MAX)
		VFAIL(R, "size-exceeds-maximum", "msg_process was told size %zu, the negotiated maximum is %zu (message really %zu bytes, header claims %d)", size, VICTIM_MAX, m.bytes.size(), m.hdr_size);
	else {
		/* every byte it was told about must be readable and be what was sent */
		const volatile uint8_t *d = (const volatile uint8_t *)data;
		for (size_t i = 0; i < size; i++) if (d[i] != m.bytes[i]) { VFAIL(R, "bytes-differ", "message id %d: byte %zu handed to msg_process differs from what was sent", id, i); break; }
	}
	m.delivered = true;
	return 0;
}

static int raw_connect(const char *name)
{
	int fd = socket(PF_UNIX, SOCK_STREAM | SOCK_NONBLOCK | SOCK_CLOEXEC, 0);
	if (fd < 0) return -1;
	struct sockaddr_un a; memset(&a, 0, sizeof a); a.sun_family = AF_UNIX;
	snprintf(a.sun_path + 1, sizeof a.sun_path - 1, "%s", name);
	if (connect(fd, (struct sockaddr *)&a, sizeof a) != 0) { close(fd); return -1; }
	return fd;
}

static bool control_roundtrip(qb_ipcc_connection_t *ctl, const char *when)
{
	struct qb_ipc_request_header *h = (struct qb_ipc_request_header *)sbuf; h->id = 50; h->size = 64;
	memset(sbuf + sizeof *h, 0x5a, 64 - sizeof *h);
	ssize_t rc = qb_ipcc_send(ctl, sbuf, 64);
	if (rc != 64) { VFAIL(R, "control-send-failed", "the well-behaved control client could not send (%zd) %s", rc, when); return false; }
	for (int i = 0; i < 200; i++) {
		ssize_t n = qb_ipcc_recv(ctl, rbuf, 70000, 0);
		if (n >= (ssize_t)sizeof(struct qb_ipc_response_header)) {
			struct qb_ipc_response_header rh; memcpy(&rh, rbuf, sizeof rh);
			if (rh.id != 51) { VFAIL(R, "control-wrong-answer", "the control client received id %d instead of its answer %s", rh.id, when); return false; }
			control_answers++;
			return true;
		}
		if (!server_step(0)) break;
	}
	/* one more look after the server went quiet */
	ssize_t n = qb_ipcc_recv(ctl, rbuf, 70000, 0);
	if (n >= (ssize_t)sizeof(struct qb_ipc_response_header)) { control_answers++; return true; }
	VFAIL(R, "control-not-served", "the well-behaved control client got no answer (%zd) %s", n, when);
	return false;
}

static void recompute_raw_ok(void) { raw_accept_ok = true; for (auto &r : RAW) if (!r.flushed && !r.sane) raw_accept_ok = false; }
static void note_idle(void) { if (ready_list().empty()) { for (auto &r : RAW) if (!r.open) r.flushed = true; recompute_raw_ok(); } }

extern "C" void verif_init(void) { sbuf = (uint8_t *)malloc(1 << 20); rbuf = (uint8_t *)malloc(70000); }

extern "C" int verif_case(const uint8_t *data, size_t size, struct verif_report *r)
{
	vr_init(&V, data, size);
	R = r; DISP.clear(); JOBS.clear(); SC.clear(); SENT.clear(); RAW.clear(); nontriv = false; next_id = 1000; control_answers = 0; victim_dropped = false; raw_accept_ok = true;
	enum qb_ipc_type type = vr_bool(&V) ? QB_IPC_SHM : QB_IPC_SOCKET;
	on_socket_transport = type == QB_IPC_SOCKET;
	VCLASS(r, type == QB_IPC_SHM ? K_SHM : K_SOCK);
	std::string name = ipc_name();
	struct qb_ipcs_service_handlers sh = { s_accept, s_created, s_msg, s_closed, s_destroyed };
	S = qb_ipcs_create(name.c_str(), 0, type, &sh);
	if (!S) { r->inconclusive = 1; return 0; }
	qb_ipcs_poll_handlers_set(S, &POLLH);
	if (qb_ipcs_run(S) != 0) { r->inconclusive = 1; return 0; }
	vop(r, 0xC06, type, 0);
	VLOG(r, "%s transport\n", type == QB_IPC_SHM ? "shm" : "socket");

	int err = 0;
	next_role = ROLE_CONTROL;
	qb_ipcc_connection_t *ctl = client_connect(name.c_str(), 0, &err);
	if (!ctl) { r->inconclusive = 1; return 0; }
	if (!control_roundtrip(ctl, "before anything hostile happened")) return 0;
	int base_fds = count_open_fds(), base_shm = count_shm_entries(); size_t base_disp = DISP.size();

	qb_ipcc_connection_t *vic = NULL; int victims = 0;
	struct qb_ipc_connection_request valid; memset(&valid, 0, sizeof valid);
	valid.hdr.id = QB_IPC_MSG_AUTHENTICATE; valid.hdr.size = sizeof valid; valid.max_msg_size = 8192;

	while (!vr_eof(&V) && !r->fail) {
		unsigned op = vr_u8(&V) % 16, arg = vr_u8(&V);
		vop(r, op, arg, 0);
		if (op <= 1 && RAW.size() < 5) {		/* a new raw peer */
			int fd = raw_connect(name.c_str());
			if (fd < 0) continue;
			RAW.push_back(raw{ fd, 0, true, true, 0, false, false });
			VLOG(r, "raw peer %zu: connected\n", RAW.size() - 1);
		}
		else if (op <= 6 && !RAW.empty()) {		/* it writes something */
			raw &p = RAW[arg % RAW.size()];
			if (!p.open) continue;
			unsigned kind = vr_u8(&V) % 8;
			uint8_t buf[4200]; size_t n = 0; static uint8_t big[17000]; bool usebig = false;
			if (kind <= 2) {			/* the next k bytes of a valid request */
				size_t left = sizeof valid - QB_MIN(p.off, sizeof valid);
				n = left ? 1 + vr_u8(&V) % left : 0;
				if (kind == 2) n = left;
				memcpy(buf, (uint8_t *)&valid + QB_MIN(p.off, sizeof valid), n);
				if (n < left || p.off > 0) VCLASS(r, K_SPLIT);
				VLOG(r, "raw peer %zu: writes bytes %zu..%zu of a valid request\n", (size_t)(&p - &RAW[0]), p.off, p.off + n);
			} else if (kind <= 4) {			/* a whole request with one field mutated */
				struct qb_ipc_connection_request q = valid;
				static const int32_t vals[] = { 0, 1, -1, INT32_MIN, INT32_MAX, 24, 23, 25, 4096, 65536, QB_IPC_MSG_DISCONNECT, QB_IPC_MSG_NEW_EVENT_SOCK, QB_IPC_MSG_USER_START, 1 << 20, -4096 };
				int32_t v = vals[vr_u8(&V) % (sizeof vals / sizeof vals[0])];
				unsigned f = vr_u8(&V) % 3;
				if (f == 0) q.hdr.id = v; else if (f == 1) q.hdr.size = v; else q.max_msg_size = (uint32_t)v;
				n = sizeof q; memcpy(buf, &q, n);
				bool harmless = (f == 2 && (uint32_t)v <= (1u << 20));	/* a size the server may honour */
				if (!(harmless && p.off == 0)) p.sane = false;
				VCLASS(r, K_FIELD);
				VLOG(r, "raw peer %zu: writes a request with %s = %d\n", (size_t)(&p - &RAW[0]), f == 0 ? "hdr.id" : f == 1 ? "hdr.size" : "max_msg_size", v);
			} else if (kind == 5) {			/* garbage */
				n = 1 + vr_u16(&V) % 200;
				for (size_t i = 0; i < n; i++) buf[i] = vr_u8(&V);
				p.sane = false; VCLASS(r, K_GARBAGE);
				VLOG(r, "raw peer %zu: writes %zu bytes of garbage\n", (size_t)(&p - &RAW[0]), n);
			} else if (kind == 6) {			/* a valid request with a long tail */
				n = sizeof valid + 1 + vr_u16(&V) % 4000;
				memset(buf, 0xee, n); memcpy(buf, &valid, sizeof valid);
				p.sane = false; VCLASS(r, K_OVERSIZE);
				VLOG(r, "raw peer %zu: writes a valid request followed by %zu more bytes\n", (size_t)(&p - &RAW[0]), n - sizeof valid);
			} else {				/* whatever is still missing of a valid request, and then a lot more: a stream that overshoots the record after a slow start */
				size_t done = QB_MIN(p.off, sizeof valid), rest = sizeof valid - done;
				size_t extra = (vr_u8(&V) & 1) ? 1 + vr_u8(&V) % 64 : 3000 + vr_u16(&V) % 13000;
				n = rest + extra;
				memset(big, 0x41, n); memcpy(big, (uint8_t *)&valid + done, rest);
				usebig = true;
				p.sane = false; VCLASS(r, K_OVERSIZE); if (done > 0) VCLASS(r, K_SPLIT);
				VLOG(r, "raw peer %zu: writes the remaining %zu bytes of a valid request and %zu more\n", (size_t)(&p - &RAW[0]), rest, extra);
			}
			if (n) {
				ssize_t w = send(p.fd, usebig ? big : buf, n, MSG_NOSIGNAL | MSG_DONTWAIT);
				if (w > 0) { p.off += (size_t)w; p.pieces++; if (p.pieces >= 2 && p.stepped_between && !p.sane) nontriv = true; if (p.pieces >= 2 && p.stepped_between) nontriv = true; }
			}
			recompute_raw_ok();
		}
		else if (op == 7 && !RAW.empty()) {		/* it goes away (or stops writing) */
			raw &p = RAW[arg % RAW.size()];
			if (!p.open) continue;
			if (p.off > 0 && p.off < sizeof valid) { VCLASS(r, K_PREFIX); nontriv = true; }
			if (p.off == 0) VCLASS(r, K_SILENT);
			if (arg & 64) { shutdown(p.fd, SHUT_WR); VLOG(r, "raw peer %zu: half-closes after %zu bytes\n", (size_t)(&p - &RAW[0]), p.off); p.sane = p.sane && p.off >= sizeof valid; }
			else { close(p.fd); p.open = false; VLOG(r, "raw peer %zu: closes after %zu bytes\n", (size_t)(&p - &RAW[0]), p.off); }
			recompute_raw_ok();
		}
		else if (op <= 9) {				/* the server runs */
			next_role = ROLE_RAW;
			int n = 1 + arg % 4, did = 0;
			for (int i = 0; i < n; i++) did += server_step(vr_u8(&V));
			for (auto &p : RAW) if (p.open && p.pieces >= 1) p.stepped_between = true;
			note_idle();
			VLOG(r, "server: %d step(s)\n", did);
		}
		else if (op <= 13) {				/* the accepted hostile client */
			if (vic && victim_dropped) {		/* thrown out by the server: this one is finished, a fresh one takes over */
				VCLASS(r, K_DROPPED);
				qb_ipcc_disconnect(vic); vic = NULL;
			}
			if (!vic) {
				if (victims >= 6) continue;
				victim_dropped = false;
				server_drain(200); note_idle();
				next_role = ROLE_VICTIM;
				/* every fourth victim lies in its handshake: it asks for a maximum message size no well-behaved client would (smaller than a message header, or just above it) */
				static const uint32_t tiny[] = { 0, 1, 8, 15, 16, 17, 24, 40, 100, 1000 };
				bool tampered = arg % 4 == 3;
				tamper_max = tampered ? (int64_t)tiny[(arg >> 2) % (sizeof tiny / sizeof tiny[0])] : -1;
				vic = client_connect(name.c_str(), 0, &err);
				tamper_max = -1;
				next_role = ROLE_RAW;
				if (!vic) continue;
				victims++;
				VICTIM_MAX = vic->request.max_msg_size;
				if (tampered) { VCLASS(r, K_TINYMAX); nontriv = true; VLOG(r, "victim: asked for a maximum message size of %u in its handshake\n", tiny[(arg >> 2) % (sizeof tiny / sizeof tiny[0])]); }
				/* an honest first message (the socket transport connects its request socket on first use) */
				struct qb_ipc_request_header *h = (struct qb_ipc_request_header *)sbuf; h->id = next_id; h->size = 32; memset(sbuf + sizeof *h, 0x11, 32 - sizeof *h);
				SENT[next_id] = sent{ std::vector<uint8_t>(sbuf, sbuf + 32), 32, false }; next_id++;
				ssize_t rc = qb_ipcc_send(vic, sbuf, 32);
				if (rc < 0) SENT.erase(next_id - 1);
				VLOG(r, "victim: connected (negotiated maximum %zu), honest 32-byte message -> %zd\n", VICTIM_MAX, rc);
				if (type == QB_IPC_SOCKET) { int sz = (int)(VICTIM_MAX * 5); setsockopt(vic->request.u.us.sock, SOL_SOCKET, SO_SNDBUF, &sz, sizeof sz); }
				VCLASS(r, K_HONEST);
				continue;
			}
			if (!vic->is_connected) continue;
			/* real length */
			size_t hs = sizeof(struct qb_ipc_request_header), len;
			unsigned lk = vr_u8(&V) % 12;
			switch (lk) {
			case 0: len = vr_u8(&V) % hs; VCLASS(r, K_SHORT); break;			/* shorter than a header (0..15) */
			case 1: len = hs; break;
			case 2: len = VICTIM_MAX; break;
			case 3: len = VICTIM_MAX + 1 + vr_u8(&V); VCLASS(r, K_BEYOND); break;
			case 4: len = VICTIM_MAX * (2 + vr_u8(&V) % 3) + vr_u8(&V); VCLASS(r, K_BEYOND); break;
			case 5: len = VICTIM_MAX - 1 - vr_u8(&V) % 16; break;
			case 6: len = hs + vr_u16(&V) % 3000; break;
			default: len = hs + vr_u8(&V); break;
			}
			/* what the header claims */
			int32_t claim; unsigned ck = vr_u8(&V) % 12;
			switch (ck) {
			case 0: claim = (int32_t)len; break;
			case 1: claim = (int32_t)len + 1 + vr_u8(&V) % 64; break;
			case 2: claim = (int32_t)VICTIM_MAX; break;
			case 3: claim = (int32_t)VICTIM_MAX + 1 + vr_u8(&V); break;
			case 4: claim = INT32_MAX; break;
			case 5: claim = 0; break;
			case 6: claim = -1 - (int32_t)vr_u8(&V); break;
			case 7: claim = INT32_MIN; break;
			case 8: claim = len > hs ? (int32_t)(hs + vr_u16(&V) % (len - hs)) : (int32_t)hs; break;	/* smaller than sent */
			case 9: claim = (int32_t)vr_u8(&V) % 16; break;						/* smaller than a header */
			case 10: claim = (int32_t)len * 4 + 5000; break;
			default: claim = (int32_t)len; break;
			}
			if (len > (1 << 20) - 64) len = (1 << 20) - 64;
			for (size_t i = 0; i < len; i++) sbuf[i] = (uint8_t)(vmix((uint32_t)next_id, i) >> 8);
			int32_t id = next_id++;
			if (len >= hs) { struct qb_ipc_request_header *h = (struct qb_ipc_request_header *)sbuf; h->id = id; h->size = claim; }
			if (len >= hs) SENT[id] = sent{ std::vector<uint8_t>(sbuf, sbuf + len), claim, false };
			if (len >= hs) {
				if (claim > (int32_t)len) { VCLASS(r, K_LARGER); nontriv = true; }
				else if (claim <= 0) { VCLASS(r, K_ZERONEG); nontriv = true; }
				else if (claim < (int32_t)len) { VCLASS(r, K_SMALLER); nontriv = true; }
				else VCLASS(r, K_HONEST);
				if (len > VICTIM_MAX) nontriv = true;
			} else nontriv = true;
			ssize_t rc;
			if (type == QB_IPC_SOCKET) {
				rc = send(vic->request.u.us.sock, sbuf, len, MSG_NOSIGNAL | MSG_DONTWAIT);
				if (rc >= 0) qb_atomic_int_inc((int32_t *)vic->request.u.us.shared_data);
				else rc = -errno;
			} else {
				rc = qb_rb_chunk_write(vic->request.u.shm.rb, sbuf, len);
				if (rc >= 0) { char x = 1; qb_ipc_us_send(&vic->setup, &x, 1); }
			}
			VLOG(r, "victim: raw message id %d, %zu bytes, header claims %d -> %zd\n", id, len, claim, rc);
			if (rc < 0) SENT.erase(id);
		}
		else if (op == 14) {
			next_role = ROLE_RAW;
			if (!control_roundtrip(ctl, "while hostile peers were active")) break;
			VLOG(r, "control client: served\n");
		}
		else if (op == 15 && vic) {			/* the victim leaves (it may have been thrown out already) */
			VLOG(r, "victim: disconnects\n");
			qb_ipcc_disconnect(vic); vic = NULL;
		}
	}
	if (r->fail) return 0;
	/* ---- wind down: hostile peers go away; the control client is still served; nothing of theirs is left */
	next_role = ROLE_RAW;
	server_drain(2000);
	if (!r->fail) control_roundtrip(ctl, "after the hostile traffic was processed");
	for (auto &p : RAW) if (p.open) { close(p.fd); p.open = false; }
	if (vic) { qb_ipcc_disconnect(vic); vic = NULL; }
	server_drain(2000);
	if (!r->fail) {
		for (auto &s : SC) if (s.alive && s.role != ROLE_CONTROL) { VFAIL(r, "connection-not-released", "a %s connection is still alive on the server although its peer is gone and the server is idle", s.role == ROLE_VICTIM ? "victim" : "raw peer"); break; }
	}
	if (!r->fail) {
		int fds = count_open_fds(), shm = count_shm_entries(); size_t disp = DISP.size();
		if (fds != base_fds) VFAIL(r, "descriptor-residue", "%d descriptors are open after the hostile peers went away, %d before they came", fds, base_fds);
		else if (disp != base_disp) VFAIL(r, "dispatch-residue", "%zu descriptors are registered with the server's loop after the hostile peers went away, %zu before they came", disp, base_disp);
		else if (shm != base_shm) VFAIL(r, "shm-residue", "%d entries in /dev/shm after the hostile peers went away, %d before they came", shm, base_shm);
	}
	if (!r->fail) control_roundtrip(ctl, "after the hostile peers went away");
	qb_ipcc_disconnect(ctl);
	server_drain(500);
	qb_ipcs_destroy(S);
	server_drain(500);
	r->nontrivial = nontriv;
	return 0;
}
