/*
 * C12 - log routing: a message reaches exactly the enabled targets whose stored filters select the
 * call site, once each, whatever the order of filter / target / first-execution events; tag filters
 * determine the reported tag the same way.
 *
 * One case = one forked process running the generated history twice:
 *   run A: every call site appears when the history first logs from it;
 *   run B: every call site of the pool is executed once BEFORE any configuration (metamorphic twin).
 * Oracle 1: declarative reference model (stored filter lists per target + global tag filters).
 * Oracle 2: runs A and B must produce identical deliveries (needs no model at all).
 */
#include <string>
#include <vector>
#include <cstdarg>
#include <regex.h>
extern "C" {
#include "os_base.h"
#include <qb/qblog.h>
#include "verif.h"
}

const char *verif_property = "C12";
const char *verif_class_names[] = { "site_first_seen_between_filter_and_enable", "remove_with_overlap_then_log", "regex_filter", "comma_list", "priority_window",
	"tag_filter", "target_closed_and_slot_reused", "clear_all", "delivered", "suppressed", "invalid_regex", "explicit_tag", "three_targets", "clear_all_with_narrower_arguments", NULL };
enum { K_LATE, K_OVERLAP, K_REGEX, K_COMMA, K_WINDOW, K_TAG, K_REUSE, K_CLEAR, K_DELIV, K_SUPP, K_BADRE, K_EXPL, K_THREE, K_CLEARNARROW };
const char *verif_rule =
	"case = history over up to 3 custom targets: open/close, enable/disable, filter ADD/REMOVE/CLEAR_ALL with (6 filter kinds, texts from pools of exact names, comma lists, '*', substrings, "
	"basic regexes incl. invalid ones, priority windows), TAG_SET/TAG_CLEAR/TAG_CLEAR_ALL, and log calls from a pool of 36 call sites with overlapping names; every history runs twice "
	"(sites first seen lazily vs. all sites executed before any configuration); non-trivial = a call site first executed after a filter was stored but before its target was enabled, "
	"or a REMOVE/CLEAR while >= 2 stored filters overlap on a site that is logged afterwards; distinct = hash of the decoded history";
int verif_fork_per_case = 1;
int verif_case_timeout_ms = 20000;
int verif_hang_is_violation = 0;
size_t verif_max_size = 360;
size_t verif_min_size = 12;

struct site { const char *file, *fn, *fmt; uint32_t line; uint8_t prio; uint32_t tags; };
static std::vector<site> SITES;
struct mfilter { int type; std::string text; uint8_t hi, lo; int value; };
struct mtarget { int id = -1; bool open = false, enabled = false; std::vector<mfilter> flt; };
struct deliv { int op; int slot; uint32_t tags; std::string msg; bool operator==(const deliv &o) const { return op == o.op && slot == o.slot && tags == o.tags && msg == o.msg; } };
static std::vector<deliv> DELIV;
static mtarget T[3];
static int cur_op;
static struct verif_report *R;

static int slot_of(int32_t id) { for (int k = 0; k < 3; k++) if (T[k].open && T[k].id == id) return k; return -1; }
static void logger_cb(int32_t t, struct qb_log_callsite *cs, struct timespec *ts, const char *msg)
{
	(void)ts;
	DELIV.push_back(deliv{ cur_op, slot_of(t), cs->tags, msg });
}
static void close_cb(int32_t t) { (void)t; }
static void reload_cb(int32_t t) { (void)t; }

static void build_sites(void)
{
	if (!SITES.empty()) return;
	static const char *files[] = { "a.c", "b.c", "dir/a.c" };
	static const char *fmts[] = { "hello %d", "hello world %d", "bye %d" };
	static const uint8_t prios[] = { LOG_ERR, LOG_INFO, LOG_DEBUG };
	for (int f = 0; f < 3; f++) for (int l = 0; l < 2; l++) for (int m = 0; m < 3; m++) for (int p = 0; p < 2; p++) {
		uint32_t line = 10 + 7 * l + f;
		/* the function name is a function of (file, line); names overlap: fn / fn2 / other */
		const char *fn = (line % 3 == 0) ? "fn" : (line % 3 == 1) ? "fn2" : "other";
		uint32_t tags = (f == 2 && l == 1) ? 77 : 0;	/* one file/line pair logs with an explicit tag */
		SITES.push_back(site{ files[f], fn, fmts[m], line, prios[(m + p) % 3], tags });
	}
}

static bool model_match(const mfilter &f, const site &s)
{
	if (s.prio > f.lo || s.prio < f.hi) return false;
	if (f.text == "*") return true;
	auto in_list = [&](const char *name) {
		size_t i = 0;
		while (i <= f.text.size()) { size_t j = f.text.find(',', i); if (j == std::string::npos) j = f.text.size(); if (f.text.compare(i, j - i, name) == 0) return true; i = j + 1; }
		return false;
	};
	const char *subj = NULL;
	switch (f.type) {
	case QB_LOG_FILTER_FILE: return in_list(s.file);
	case QB_LOG_FILTER_FUNCTION: return in_list(s.fn);
	case QB_LOG_FILTER_FORMAT: return strstr(s.fmt, f.text.c_str()) != NULL;
	case QB_LOG_FILTER_FILE_REGEX: subj = s.file; break;
	case QB_LOG_FILTER_FUNCTION_REGEX: subj = s.fn; break;
	case QB_LOG_FILTER_FORMAT_REGEX: subj = s.fmt; break;
	}
	regex_t re; if (regcomp(&re, f.text.c_str(), 0)) return false;
	bool m = regexec(&re, subj, 0, NULL, 0) == 0; regfree(&re); return m;
}

static void log_site(const site &s, int arg, ...)
{
	va_list ap; va_start(ap, arg);
	(void)arg;
	qb_log_from_external_source_va(s.fn, s.file, s.fmt, s.prio, s.line, s.tags, ap);
	va_end(ap);
}

struct hop { int kind; int slot; int type; std::string text; uint8_t hi, lo; int value; int site; int arg; };

/* run the history once; lazy=false executes every site before any configuration */
static void run_history(const std::vector<hop> &H, bool pretouch, std::vector<deliv> *out, bool check_model, bool *nt)
{
	std::vector<mfilter> tagf;
	std::vector<bool> seen(SITES.size(), false);
	for (int k = 0; k < 3; k++) T[k] = mtarget();
	DELIV.clear();
	qb_log_init("verif", LOG_USER, LOG_INFO);
	qb_log_ctl(QB_LOG_SYSLOG, QB_LOG_CONF_ENABLED, QB_FALSE);
	cur_op = -1;
	if (pretouch) for (size_t i = 0; i < SITES.size(); i++) { log_site(SITES[i], 0, 0); seen[i] = true; }
	if (!DELIV.empty()) { VFAIL(R, "delivered-without-target", "a message was delivered although no target exists"); }
	for (size_t i = 0; i < H.size() && !R->fail; i++) {
		const hop &h = H[i]; mtarget &t = T[h.slot];
		cur_op = (int)i;
		int rc = 0, exp = 0;
		switch (h.kind) {
		case 0:	/* open */
			if (t.open) break;
			{ int id = qb_log_custom_open(logger_cb, close_cb, reload_cb, NULL);
			  if (id < 0) { VFAIL(R, "open-failed", "qb_log_custom_open returned %d", id); break; }
			  for (int k = 0; k < 3; k++) if (T[k].open && T[k].id == id) VFAIL(R, "slot-in-use", "custom_open returned the id of an open target");
			  t = mtarget(); t.id = id; t.open = true;
			  if (check_model) VLOG(R, "#%zu open slot %d -> target %d\n", i, h.slot, id); }
			break;
		case 1:	/* close */
			if (!t.open) break;
			qb_log_custom_close(t.id);
			if (check_model) VLOG(R, "#%zu close slot %d (target %d, %zu filters stored)\n", i, h.slot, t.id, t.flt.size());
			if (!t.flt.empty()) VCLASS(R, K_REUSE);
			t.open = false; t.enabled = false; t.flt.clear();
			break;
		case 2: case 3:	/* enable / disable */
			if (!t.open) break;
			rc = qb_log_ctl(t.id, QB_LOG_CONF_ENABLED, h.kind == 2);
			if (rc != 0) { VFAIL(R, "ctl-enabled", "qb_log_ctl(ENABLED) returned %d", rc); break; }
			t.enabled = h.kind == 2;
			if (check_model) VLOG(R, "#%zu %s slot %d\n", i, h.kind == 2 ? "enable" : "disable", h.slot);
			break;
		case 4: {	/* filter add */
			if (!t.open) break;
			mfilter f{ h.type, h.text, h.hi, h.lo, t.id };
			bool isre = h.type >= QB_LOG_FILTER_FILE_REGEX;
			exp = 0;
			if (h.lo < h.hi) exp = -EINVAL;
			else {
				for (auto &o : t.flt) if (o.type == f.type && o.text == f.text && o.hi == f.hi && o.lo == f.lo) exp = -EEXIST;
				if (!exp && isre) { regex_t re; if (regcomp(&re, h.text.c_str(), 0)) { exp = -EINVAL; VCLASS(R, K_BADRE); } else regfree(&re); }
			}
			rc = qb_log_filter_ctl2(t.id, QB_LOG_FILTER_ADD, (enum qb_log_filter_type)h.type, h.text.c_str(), h.hi, h.lo);
			if (check_model) VLOG(R, "#%zu slot %d ADD type %d '%s' [%u..%u] -> %d\n", i, h.slot, h.type, h.text.c_str(), h.hi, h.lo, rc);
			if (rc != exp) { VFAIL(R, "filter-add-rc", "filter ADD returned %d, expected %d", rc, exp); break; }
			if (rc == 0) { t.flt.push_back(f); if (isre) VCLASS(R, K_REGEX); if (h.text.find(',') != std::string::npos) VCLASS(R, K_COMMA); if (h.hi > 0 || h.lo < LOG_TRACE) VCLASS(R, K_WINDOW); }
			break; }
		case 5: {	/* filter remove */
			if (!t.open) break;
			rc = qb_log_filter_ctl2(t.id, QB_LOG_FILTER_REMOVE, (enum qb_log_filter_type)h.type, h.text.c_str(), h.hi, h.lo);
			exp = h.lo < h.hi ? -EINVAL : 0;
			if (check_model) VLOG(R, "#%zu slot %d REMOVE type %d '%s' [%u..%u] -> %d\n", i, h.slot, h.type, h.text.c_str(), h.hi, h.lo, rc);
			if (rc != exp) { VFAIL(R, "filter-remove-rc", "filter REMOVE returned %d, expected %d", rc, exp); break; }
			if (rc == 0) for (size_t q = 0; q < t.flt.size(); q++) {
				mfilter &o = t.flt[q];
				if (o.type == h.type && o.lo <= h.lo && o.hi >= h.hi && (o.text == h.text || h.text == "*")) {
					/* is some site selected both by the removed filter and by another stored one? */
					for (auto &s : SITES) if (model_match(o, s)) for (size_t q2 = 0; q2 < t.flt.size(); q2++) if (q2 != q && model_match(t.flt[q2], s)) *nt |= true, VCLASS(R, K_OVERLAP);
					t.flt.erase(t.flt.begin() + q); break;
				}
			}
			break; }
		case 6:	/* clear all */
			if (!t.open) break;
			/* whatever type, text and priority accompany it, clear-all drops every filter of the target */
			if ((h.arg & 1) && h.type < QB_LOG_FILTER_FILE_REGEX && !h.text.empty()) rc = qb_log_filter_ctl(t.id, QB_LOG_FILTER_CLEAR_ALL, (enum qb_log_filter_type)h.type, h.text.c_str(), h.lo), VCLASS(R, K_CLEARNARROW);
			else rc = qb_log_filter_ctl(t.id, QB_LOG_FILTER_CLEAR_ALL, QB_LOG_FILTER_FILE, "*", LOG_TRACE);
			if (check_model) VLOG(R, "#%zu slot %d CLEAR_ALL%s -> %d\n", i, h.slot, (h.arg & 1) ? " (with narrower arguments)" : "", rc);
			if (rc != 0) { VFAIL(R, "filter-clear-rc", "CLEAR_ALL returned %d", rc); break; }
			if (t.flt.size() >= 2) *nt |= true;
			t.flt.clear(); VCLASS(R, K_CLEAR);
			break;
		case 7: {	/* tag set */
			mfilter f{ h.type, h.text, h.hi, h.lo, h.value };
			bool isre = h.type >= QB_LOG_FILTER_FILE_REGEX;
			exp = 0;
			if (h.lo < h.hi) exp = -EINVAL;
			else {
				for (auto &o : tagf) if (o.type == f.type && o.text == f.text && o.hi == f.hi && o.lo == f.lo && o.value == f.value) exp = -EEXIST;
				if (!exp && isre) { regex_t re; if (regcomp(&re, h.text.c_str(), 0)) exp = -EINVAL; else regfree(&re); }
			}
			rc = qb_log_filter_ctl2(h.value, QB_LOG_TAG_SET, (enum qb_log_filter_type)h.type, h.text.c_str(), h.hi, h.lo);
			if (check_model) VLOG(R, "#%zu TAG_SET %d type %d '%s' [%u..%u] -> %d\n", i, h.value, h.type, h.text.c_str(), h.hi, h.lo, rc);
			if (rc != exp) { VFAIL(R, "tag-set-rc", "TAG_SET returned %d, expected %d", rc, exp); break; }
			if (rc == 0) { tagf.push_back(f); VCLASS(R, K_TAG); }
			break; }
		case 8: {	/* tag clear */
			rc = qb_log_filter_ctl2(h.value, QB_LOG_TAG_CLEAR, (enum qb_log_filter_type)h.type, h.text.c_str(), h.hi, h.lo);
			exp = h.lo < h.hi ? -EINVAL : 0;
			if (check_model) VLOG(R, "#%zu TAG_CLEAR type %d '%s' [%u..%u] -> %d\n", i, h.type, h.text.c_str(), h.hi, h.lo, rc);
			if (rc != exp) { VFAIL(R, "tag-clear-rc", "TAG_CLEAR returned %d, expected %d", rc, exp); break; }
			if (rc == 0) for (size_t q = 0; q < tagf.size(); q++) { mfilter &o = tagf[q]; if (o.type == h.type && o.lo <= h.lo && o.hi >= h.hi && (o.text == h.text || h.text == "*")) { tagf.erase(tagf.begin() + q); break; } }
			break; }
		case 9:	/* tag clear all */
			if ((h.arg & 1) && h.type < QB_LOG_FILTER_FILE_REGEX && !h.text.empty()) rc = qb_log_filter_ctl(0, QB_LOG_TAG_CLEAR_ALL, (enum qb_log_filter_type)h.type, h.text.c_str(), h.lo), VCLASS(R, K_CLEARNARROW);
			else rc = qb_log_filter_ctl(0, QB_LOG_TAG_CLEAR_ALL, QB_LOG_FILTER_FILE, "*", LOG_TRACE);
			if (check_model) VLOG(R, "#%zu TAG_CLEAR_ALL%s -> %d\n", i, (h.arg & 1) ? " (with narrower arguments)" : "", rc);
			tagf.clear();
			break;
		default: {	/* log from a site */
			const site &s = SITES[h.site];
			size_t before = DELIV.size();
			if (!seen[h.site]) {
				/* first execution: was a filter stored for a target that is not enabled right now? */
				for (int k = 0; k < 3; k++) if (T[k].open && !T[k].enabled) for (auto &f : T[k].flt) if (model_match(f, s)) { *nt |= true; VCLASS(R, K_LATE); }
				seen[h.site] = true;
			}
			log_site(s, h.arg, h.arg);
			if (s.tags) VCLASS(R, K_EXPL);
			if (!check_model) break;
			char exp_msg[128]; snprintf(exp_msg, sizeof exp_msg, s.fmt, h.arg);
			uint32_t exp_tag = s.tags;
			if (!exp_tag) for (auto &f : tagf) if (model_match(f, s)) exp_tag = (uint32_t)f.value;
			std::string who;
			for (int k = 0; k < 3; k++) {
				bool want = false;
				if (T[k].open && T[k].enabled) for (auto &f : T[k].flt) if (model_match(f, s)) want = true;
				int got = 0; const deliv *d = NULL;
				for (size_t q = before; q < DELIV.size(); q++) if (DELIV[q].slot == k) { got++; d = &DELIV[q]; }
				who += want ? std::to_string(k) : std::string("-");
				if (got != (want ? 1 : 0)) {
					VFAIL(R, want ? (got ? "delivered-twice" : "not-delivered") : "delivered-unselected",
					      "log from %s:%u %s() prio %u \"%s\": target in slot %d (%s, %zu filters) received it %d time(s), the stored filters say %d",
					      s.file, s.line, s.fn, s.prio, s.fmt, k, T[k].open ? (T[k].enabled ? "enabled" : "disabled") : "closed", T[k].flt.size(), got, want ? 1 : 0);
					break;
				}
				if (want) {
					VCLASS(R, K_DELIV);
					if (d->msg != exp_msg) { VFAIL(R, "message-text", "delivered text \"%s\", expected \"%s\"", d->msg.c_str(), exp_msg); break; }
					if (d->tags != exp_tag) { VFAIL(R, "tag-value", "message from %s:%u reported with tag %u, the stored tag filters say %u", s.file, s.line, d->tags, exp_tag); break; }
				} else if (T[k].open) VCLASS(R, K_SUPP);
			}
			for (size_t q = before; q < DELIV.size(); q++) if (DELIV[q].slot < 0) VFAIL(R, "delivered-to-closed", "message delivered to a target that is not open");
			VLOG(R, "#%zu log site %d %s:%u %s() prio %u \"%s\" -> targets [%s]\n", i, h.site, s.file, s.line, s.fn, s.prio, s.fmt, who.c_str());
			break; }
		}
	}
	*out = DELIV;
	if (!R->fail) qb_log_fini();
}

extern "C" void verif_init(void) { build_sites(); }

extern "C" int verif_case(const uint8_t *data, size_t size, struct verif_report *r)
{
	struct vr v; vr_init(&v, data, size);
	R = r;
	build_sites();
	static const char *file_txt[] = { "a.c", "b.c", "a.c,b.c", "*", "dir/a.c", "a", "b.c,dir/a.c,zz", "a.c," };
	static const char *fn_txt[] = { "fn", "fn,other", "fn2", "*", "other", "f", "fn2,fn" };
	static const char *fmt_txt[] = { "hello", "hello world", "bye", "%d", "*", "o w", "zzz" };
	static const char *re_txt[] = { "^a", "a\\.c$", "^fn", "fn.*", "hel*o", "[", "^dir/", "wor", "\\(", "^other$", "b" };
	std::vector<hop> H;
	int ntargets = 0;
	/* preamble: most histories start with one to three targets, some enabled, some with a catch-all filter */
	{
		unsigned pre = vr_u8(&v);
		for (int k = 0; k < 3 && (pre & 3) != 3; k++) {
			if (k > (int)(pre & 3)) break;
			hop o{}; o.kind = 0; o.slot = k; H.push_back(o); ntargets++;
			if (pre & (4 << k)) { hop e{}; e.kind = 2; e.slot = k; H.push_back(e); }
			if (pre & (32 << k)) { hop f{}; f.kind = 4; f.slot = k; f.type = QB_LOG_FILTER_FILE; f.text = k == 0 ? "*" : "a.c,b.c"; f.hi = 0; f.lo = LOG_TRACE; H.push_back(f); }
		}
		vop(r, 0xC12, pre, 0);
	}
	while (!vr_eof(&v) && H.size() < 120) {
		hop h{}; unsigned k = vr_u8(&v) % 32;
		h.slot = vr_u8(&v) % 3;
		h.kind = k <= 2 ? 0 : k == 3 ? 1 : k <= 6 ? 2 : k == 7 ? 3 : k <= 13 ? 4 : k <= 16 ? 5 : k == 17 ? 6 : k <= 19 ? 7 : k == 20 ? 8 : k == 21 ? 9 : 10;
		if (h.kind == 0) ntargets++;
		if (h.kind >= 4 && h.kind <= 9) {
			h.type = vr_u8(&v) % 6;
			unsigned ti = vr_u8(&v);
			switch (h.type) {
			case QB_LOG_FILTER_FILE: h.text = file_txt[ti % 8]; break;
			case QB_LOG_FILTER_FUNCTION: h.text = fn_txt[ti % 7]; break;
			case QB_LOG_FILTER_FORMAT: h.text = fmt_txt[ti % 7]; break;
			default: h.text = re_txt[ti % 11]; break;
			}
			static const uint8_t wins[][2] = { { 0, LOG_TRACE }, { 0, LOG_TRACE }, { 0, LOG_INFO }, { 0, LOG_ERR }, { LOG_INFO, LOG_DEBUG }, { LOG_ERR, LOG_ERR }, { LOG_DEBUG, LOG_INFO }, { 0, LOG_DEBUG } };
			unsigned w = vr_u8(&v) % 8; h.hi = wins[w][0]; h.lo = wins[w][1];
			h.value = 1 + vr_u8(&v) % 5;
		}
		if ((h.kind == 5 || h.kind == 8) && vr_u8(&v) % 4 != 0) {
			/* aim at a filter this history added earlier (same slot for target filters) */
			std::vector<size_t> cand;
			for (size_t q = 0; q < H.size(); q++) if ((h.kind == 5 && H[q].kind == 4 && H[q].slot == h.slot) || (h.kind == 8 && H[q].kind == 7)) cand.push_back(q);
			if (!cand.empty()) { const hop &o = H[cand[vr_u8(&v) % cand.size()]]; h.type = o.type; h.text = o.text; h.hi = o.hi; h.lo = o.lo; }
		}
		if (h.kind == 10) { h.site = vr_u8(&v) % SITES.size(); h.arg = vr_u8(&v); }
		if (h.kind == 6 || h.kind == 9) h.arg = vr_u8(&v);
		H.push_back(h);
		vop(r, h.kind * 256 + h.slot * 64 + h.type, vhash_bytes(h.text.data(), h.text.size()), (h.hi << 24) | (h.lo << 16) | (h.site << 8) | h.arg);
	}
	if (ntargets >= 3) VCLASS(r, K_THREE);
	bool nt = false, nt2 = false;
	std::vector<deliv> A, B;
	VLOG(r, "--- run A (call sites appear lazily), %zu operations\n", H.size());
	run_history(H, false, &A, true, &nt);
	if (!r->fail) {
		int save = r->want_log; r->want_log = 0;
		run_history(H, true, &B, false, &nt2);
		r->want_log = save;
		if (!r->fail && !(A == B)) {
			size_t q = 0; while (q < A.size() && q < B.size() && A[q] == B[q]) q++;
			VFAIL(r, "first-execution-time-matters", "the same history delivers differently when every call site was executed before any configuration: first difference at delivery %zu (lazy run: %zu deliveries, pre-touched run: %zu)%s",
			      q, A.size(), B.size(), q < A.size() ? (" lazy op #" + std::to_string(A[q].op) + " slot " + std::to_string(A[q].slot)).c_str() : "");
		}
	}
	r->nontrivial = nt;
	return 0;
}
