# build.mk - builds libqb from /repo's working tree (sanitizer variants) and the
# harness binaries.  Usage: make -f build.mk -j16 [VARIANT=asan] <target>
#   targets: lib, cNN (one harness), all
REPO    ?= /repo
VERIF   ?= /verif
VARIANT ?= asan
BUILDROOT ?= $(VERIF)/.build
B       := $(BUILDROOT)/$(VARIANT)
CC      := clang
CXX     := clang++

LIBSRC := util.c hdb.c ringbuffer.c ringbuffer_helper.c array.c loop.c loop_poll.c \
	loop_job.c loop_timerlist.c ipcc.c ipcs.c ipc_shm.c ipc_setup.c ipc_socket.c \
	log.c log_thread.c log_blackbox.c log_file.c log_syslog.c log_dcs.c log_format.c \
	map.c skiplist.c hashtable.c trie.c unix.c loop_poll_epoll.c strlcpy.c strlcat.c

INC := -I$(REPO)/include -I$(REPO)/include/qb -I$(REPO)/lib -I$(VERIF)/vendor -I$(VERIF)/engine -I$(VERIF)/harness
DEFS := -DHAVE_CONFIG_H -D_GNU_SOURCE -DCLUSTERLABS_LIBQB_VERIF

SAN_asan  := -fsanitize=address,undefined -fno-sanitize-recover=undefined -fno-sanitize=alignment
SAN_fuzz  := $(SAN_asan) -fsanitize=fuzzer-no-link
SAN_tsan  := -fsanitize=thread
SAN_plain :=
SAN_sched := $(SAN_asan)
SAN := $(SAN_$(VARIANT))
OPT ?= -O1
CFLAGS := $(OPT) -g -fno-omit-frame-pointer $(SAN) $(DEFS) $(INC) -Wno-unused-value -pthread
# files that get load/store tracing in the sched variant
SCHED_FILES := ringbuffer.c ringbuffer_helper.c array.c
SCHED_COV := -fsanitize-coverage=edge,trace-pc-guard,trace-loads,trace-stores

LIBOBJ := $(addprefix $(B)/lib/,$(LIBSRC:.c=.o))
HDRS := $(wildcard $(REPO)/include/*.h $(REPO)/include/qb/*.h $(REPO)/lib/*.h $(VERIF)/engine/*.h)

.PHONY: lib all
lib: $(B)/libqb.a

$(B)/lib/%.o: $(REPO)/lib/%.c $(HDRS)
	@mkdir -p $(dir $@)
	$(CC) $(CFLAGS) $(if $(and $(filter sched,$(VARIANT)),$(filter $(SCHED_FILES),$(notdir $<))),$(SCHED_COV)) -c $< -o $@

$(B)/libqb.a: $(LIBOBJ)
	@rm -f $@
	ar rcs $@ $(LIBOBJ)

$(B)/engine/%.o: $(VERIF)/engine/%.c $(HDRS)
	@mkdir -p $(dir $@)
	$(CC) $(CFLAGS) -c $< -o $@

HHDRS := $(wildcard $(VERIF)/harness/*.inc $(VERIF)/harness/*.h $(VERIF)/harness/c15_blackbox_file.cc)
$(B)/harness/%.o: $(VERIF)/harness/%.c $(HDRS) $(HHDRS)
	@mkdir -p $(dir $@)
	$(CC) $(CFLAGS) -c $< -o $@

$(B)/harness/%.o: $(VERIF)/harness/%.cc $(HDRS) $(HHDRS)
	@mkdir -p $(dir $@)
	$(CXX) -std=gnu++17 $(CFLAGS) -c $< -o $@

DRIVER := $(B)/engine/driver.o
LDLIBS := -lpthread -ldl -lrt

# per-harness extra objects / link flags
WRAP_RANDOM := -Wl,--wrap=random,--wrap=srandom,--wrap=rand,--wrap=srand
EXTRA_c20 := wrap_random.o
LDX_c20 := $(WRAP_RANDOM)
WRAP_SCHED := -Wl,--wrap=pthread_spin_lock,--wrap=pthread_spin_unlock,--wrap=sem_post,--wrap=sem_trywait,--wrap=sem_wait,--wrap=sem_timedwait,--wrap=sem_getvalue
EXTRA_c01 := vsched.o
LDX_c01 := $(WRAP_SCHED)
EXTRA_c19c := vsched.o
LDX_c19c := $(WRAP_SCHED)
WRAP_CLOCK := -Wl,--wrap=clock_gettime
WRAP_MMAP := -Wl,--wrap=mmap,--wrap=munmap
EXTRA_c15 := wrap_clock.o wrap_mmap.o
LDX_c15 := $(WRAP_CLOCK) $(WRAP_MMAP)
EXTRA_c11b := wrap_clock.o wrap_mmap.o
LDX_c11b := $(WRAP_CLOCK) $(WRAP_MMAP)
EXTRA_c07 := wrap_mmap.o
LDX_c07 := $(WRAP_MMAP)
EXTRA_c11 := wrap_mmap.o
LDX_c11 := $(WRAP_MMAP)
WRAP_LOOP := -Wl,--wrap=clock_gettime,--wrap=epoll_wait,--wrap=random,--wrap=srandom,--wrap=rand,--wrap=srand
LOOP_OBJS := wrap_clock.o wrap_epoll.o wrap_random.o
EXTRA_c08 := $(LOOP_OBJS)
LDX_c08 := $(WRAP_LOOP)
EXTRA_c09 := $(LOOP_OBJS)
LDX_c09 := $(WRAP_LOOP)
EXTRA_c10 := $(LOOP_OBJS)
LDX_c10 := $(WRAP_LOOP)
EXTRA_c16 := wrap_perturb.o
LDX_c16 := -Wl,--wrap=pthread_spin_lock,--wrap=sem_post,--wrap=sem_wait
WRAP_CRASH := -Wl,--wrap=socket,--wrap=connect,--wrap=bind,--wrap=listen,--wrap=accept,--wrap=shutdown,--wrap=setsockopt,--wrap=send,--wrap=sendmsg,--wrap=recv,--wrap=recvmsg,--wrap=poll,--wrap=open,--wrap=close,--wrap=unlink,--wrap=unlinkat,--wrap=rmdir,--wrap=ftruncate,--wrap=truncate,--wrap=mmap,--wrap=munmap,--wrap=write,--wrap=mkdtemp,--wrap=chmod,--wrap=chown,--wrap=fchmod,--wrap=fchown
EXTRA_c03 := wrap_crash.o
LDX_c03 := $(WRAP_CRASH)
EXTRA_c05 := wrap_crash.o
LDX_c05 := $(WRAP_CRASH)
LDX_c04 := -Wl,--wrap=usleep
LDX_c06 := -Wl,--wrap=recv -Wl,--wrap=send
EXTRA_c17 := wrap_random.o
LDX_c17 := $(WRAP_RANDOM)
EXTRA_c18 := wrap_random.o
LDX_c18 := $(WRAP_RANDOM)

# generic rule: harness/cNN_*.c(c) -> $(B)/cNN
define HARNESS_RULE
$(B)/$(1): $(B)/harness/$(2).o $$(DRIVER) $$(addprefix $(B)/engine/,$$(EXTRA_$(1))) $(B)/libqb.a
	$$(CXX) $$(CFLAGS) -o $$@ $(B)/harness/$(2).o $$(DRIVER) $$(addprefix $(B)/engine/,$$(EXTRA_$(1))) $$(LDX_$(1)) $(B)/libqb.a $$(LDLIBS)
.PHONY: $(1)
$(1): $(B)/$(1)
ALL += $(B)/$(1)
# libFuzzer front end of the same harness (VARIANT=fuzz only)
$(B)/$(1)_fuzz: $(B)/harness/$(2).o $(B)/engine/fuzz_main.o $$(addprefix $(B)/engine/,$$(EXTRA_$(1))) $(B)/libqb.a
	$$(CXX) $$(CFLAGS) -fsanitize=fuzzer -o $$@ $(B)/harness/$(2).o $(B)/engine/fuzz_main.o $$(addprefix $(B)/engine/,$$(EXTRA_$(1))) $$(LDX_$(1)) $(B)/libqb.a $$(LDLIBS)
.PHONY: $(1)_fuzz
$(1)_fuzz: $(B)/$(1)_fuzz
endef

HARNESS_SRCS := $(wildcard $(VERIF)/harness/c[0-9][0-9]*_*.c $(VERIF)/harness/c[0-9][0-9]*_*.cc)
$(foreach s,$(HARNESS_SRCS),$(eval $(call HARNESS_RULE,$(word 1,$(subst _, ,$(basename $(notdir $(s))))),$(basename $(notdir $(s))))))

all: $(ALL)
